"""G1 character soup: text over a weighted alphabet that contains every character a lexer rule mentions,
all kinds of whitespace, controls, non-BMP code points and lone surrogates, plus multi-character fragments."""
from hypothesis import strategies as st

SPECIAL = list("'\"`´$;:()[],.*/-#\\+<>=~!@%^&|?{}_")
WHITESPACE = [' ', ' ', ' ', '\t', '\n', '\n', '\r', '\r\n', '\x0b', '\x0c', '\x1c', '\x1d', '\x1e', '\x1f',
              '\x85', '\xa0', ' ', ' ', '　', ' ', ' ']
LETTERS = list('aAbBeExXzZsS_') + ['À', 'Ü', 'é', 'ß', 'Ж', '中', '×', 'İ']
DIGITS = list('0123456789') + ['٣', '²']
# characters that a compatibility / case / width folding maps onto a delimiter: full-width and typographic forms
CONFUSABLE = ['\uff07', '\uff02', '\uff40', '\uff0a\uff0f', '\uff0f\uff0a', '\uff04', '\uff04\uff04', '\uff1b', '\uff0d\uff0d', '\uff3c', '\uff08', '\uff09',
              '\u2019', '\u2018', '\u02bc', '\u201c', '\u201d', '\u2032', '\u2033', '\ufe54', '\u037e', '\u2028', '\u2029', '\ufe69', '\u2215', '\u2217']
ODD = ['\x00', '\x01', '\x7f', '\ud800', '\udfff', '\U0001f600', '\U00010400', '﻿', '​', '́']

FRAGMENTS = [
    '--', '-- ', '--+', '# ', '#', '/*', '*/', '/*+', '/*!', '/*!40101 x */', "'", "''", '"', '""', '`', '``', '´', '$$', '$a$', '$_x1$', '$1',
    ':=', '::', ':a', '?', '%s', '%(n)s', '@a', '@@a', '##a', '#a', '\\c', '[', ']', '[a]', '[1]',
    'CASE', 'IN', 'VALUES', 'USING', 'FROM', 'AS', 'END', 'END IF', 'END  LOOP', 'END\nWHILE', 'NOT NULL', 'NOT\tNULL',
    'ASC', 'DESC NULLS LAST', 'NULLS FIRST', 'UNION ALL', 'UNION\nALL', 'CREATE OR REPLACE', 'create  or\treplace',
    'DOUBLE PRECISION', 'GROUP BY', 'ORDER BY', 'order\r\nby', 'PRIMARY KEY', 'HANDLER FOR', 'GO', 'GO 2', 'go 10',
    'LATERAL VIEW EXPLODE', "AT TIME ZONE '", "AT TIME ZONE 'UTC'", "WITH' TIME ZONE 'x'", 'NOT LIKE', 'NOT  ILIKE', 'REGEXP',
    'LEFT OUTER JOIN', 'JOIN', 'NATURAL JOIN', 'STRAIGHT JOIN', 'CROSS\nJOIN', 'LIKE', 'select', 'SELECT', 'where',
    'insert', 'update', 'delete', 'create', 'begin', 'declare', 'if', 'for', 'while', 'loop', 'when', 'then', 'else',
    '0x1F', '-0xff', '1e5', '1E-5', '1.', '.5', '-1', '1.5', '-.5', '1_', '1a', '->', '->>', '#>', '#>>', '@>', '<@',
    '?|', '?&', '#-', '<=', '>=', '<>', '!=', '==', '||', 'a.b', 'a .b', 'a. b', 'f(', 'x(', 'E\'', "N'", "E'\\'",
    "\\'", '\\"', "'\\\\'", ';', ';\n', 'é', 'À(', 'À.',
]

_char = st.one_of(
    st.sampled_from(SPECIAL), st.sampled_from(SPECIAL), st.sampled_from(WHITESPACE), st.sampled_from(WHITESPACE),
    st.sampled_from(LETTERS), st.sampled_from(LETTERS), st.sampled_from(DIGITS), st.sampled_from(ODD), st.sampled_from(CONFUSABLE),
    st.sampled_from(FRAGMENTS), st.sampled_from(FRAGMENTS), st.sampled_from(FRAGMENTS),
    st.characters(exclude_categories=()),
)


def soup(max_size=40):
    return st.lists(_char, max_size=max_size).map(''.join)


def text(quick=True):
    """mostly short, occasionally long"""
    return st.one_of(soup(12), soup(40), soup(40), soup(40), soup(120), soup(600 if quick else 2500))


def body_chars():
    """single characters for region bodies (C05/C14): full character set, special characters favoured"""
    return st.one_of(
        st.sampled_from(SPECIAL), st.sampled_from(WHITESPACE), st.sampled_from(LETTERS), st.sampled_from(DIGITS),
        st.sampled_from(ODD), st.characters(exclude_categories=()), st.sampled_from(CONFUSABLE),
        st.sampled_from([';', "';'", 'GO', 'END', 'BEGIN', '--', '/*', '*/', '$$', "''", '""', '``', 'é', '\n', '\r\n']),
    )


def body(max_size=12):
    return st.lists(body_chars(), max_size=max_size).map(''.join)
