"""G3 verification grammar (DESIGN.md section 3).

A statement is a flat list of lexemes  [kind, text, tight, meta]  interleaved with mark pseudo-lexemes that record
what the generator *wrote* (clause extents, list items, call arguments, CASE parts, comparison operands, typed
literals, parenthesis regions, statement extents and leading keywords).  `strip_marks` separates the two;
`layout`/`assemble` turn lexemes into text under a drawn whitespace/comment/casing policy and report spans.

Everything here is data construction: nothing calls the lexer or the parser.
"""
import functools
import re

from hypothesis import strategies as st

from sqlparse import keywords as _K

# ------------------------------------------------------------------------------------------------------------
# lexemes and marks

def weighted(*pairs):
    """weighted choice between strategies.  st.one_of cannot express weights: it flattens nested one_of / mapped
    one_of strategies into their leaves and drops repeated strategy objects, so every leaf is equally likely."""
    table = [i for i, (w, _) in enumerate(pairs) for _ in range(w)]
    strategies = [s for _, s in pairs]
    return st.sampled_from(table).flatmap(lambda i: strategies[i])


def L(kind, text, tight=False, **meta):
    return [kind, text, bool(tight), meta]


def kw(text, **meta):
    return L('kw', text, False, **meta)


def P(text, tight=True, **meta):
    return L('punct', text, tight, **meta)


def LP(tight=False, **meta):
    return L('lp', '(', tight, **meta)


def RP(**meta):
    return L('rp', ')', True, **meta)


def W(kind, body, **info):
    """wrap a lexeme list in an open/close mark pair"""
    o = dict(info)
    o['m'] = 'o'
    o['k'] = kind
    return [['mark', '', True, o]] + list(body) + [['mark', '', True, {'m': 'c', 'k': kind}]]


def seq(*parts):
    """flatten nested lists of lexemes (a lexeme is a list whose first element is a str); None is skipped"""
    out = []
    for p in parts:
        if p is None:
            continue
        if p and isinstance(p[0], str):
            out.append(p)
        else:
            for q in p:
                out.extend(seq(q))
    return out


def tight_first(body):
    """copy of body whose first real lexeme may abut the previous lexeme (used after an opening bracket)"""
    body = list(body)
    for i, l in enumerate(body):
        if l[0] != 'mark':
            body[i] = [l[0], l[1], True, l[3]]
            break
    return body


def paren(body, tight=False, **meta):
    return seq(LP(tight, **meta), tight_first(body), RP())


def comma_list(items):
    out = []
    for i, it in enumerate(items):
        if i:
            out.append(P(','))
        out.extend(it)
    return out


def strip_marks(lex):
    """-> (lexemes without marks, marks) ; a mark is {k, s, e, info, id, parent} with e exclusive"""
    clean = []
    marks = []
    stack = []
    for l in lex:
        if l[0] == 'mark':
            m = l[3]
            if m['m'] == 'o':
                info = {a: b for a, b in m.items() if a not in ('m', 'k')}
                mk = {'k': m['k'], 's': len(clean), 'e': None, 'info': info, 'id': len(marks),
                      'parent': stack[-1] if stack else None}
                marks.append(mk)
                stack.append(mk['id'])
            else:
                mk = marks[stack.pop()]
                assert mk['k'] == m['k'], (mk, m)
                mk['e'] = len(clean)
        else:
            clean.append(l)
    assert not stack
    return clean, marks


# ------------------------------------------------------------------------------------------------------------
# names: rejected by dictionary lookup (data), never by calling the lexer

DICT_NAMES = ['KEYWORDS_COMMON', 'KEYWORDS_ORACLE', 'KEYWORDS_MYSQL', 'KEYWORDS_PLPGSQL', 'KEYWORDS_HQL',
              'KEYWORDS_MSACCESS', 'KEYWORDS_SNOWFLAKE', 'KEYWORDS_BIGQUERY', 'KEYWORDS']
ALL_WORDS = set()
for _n in DICT_NAMES:
    ALL_WORDS |= set(getattr(_K, _n))
# words that a dedicated lexical rule turns into something else than a Name
DEDICATED = {'CASE', 'IN', 'VALUES', 'USING', 'FROM', 'AS', 'END', 'JOIN', 'ASC', 'DESC', 'CREATE', 'LIKE', 'ILIKE', 'RLIKE',
             'REGEXP', 'GO', 'NOT', 'NULLS', 'UNION', 'GROUP', 'ORDER', 'DOUBLE', 'PRIMARY', 'HANDLER', 'LATERAL', 'AT',
             'LEFT', 'RIGHT', 'FULL', 'INNER', 'OUTER', 'STRAIGHT', 'CROSS', 'NATURAL', 'E', 'N', 'X', 'B', 'U'}


def is_plain_name(w):
    up = w.upper()
    return up not in ALL_WORDS and up not in DEDICATED and not w[0].isdigit()


BASE_NAMES = [w for w in ['a', 'b', 'c', 'y', 'z', 't1', 't2', 'foo', 'bar', 'baz', 'col1', 'col_2', 'tbl', 'usr', 'amt', 'qty',
                          'Ab', 'ÀB', 'o1', 'id2', '_u', 'v_x', 'n9', 'emp', 'dept', 'sal', 'k', 'm', 'nm', 'prc', 'ord', 'itm',
                          'cust', 'éa', 'Öl', 'ßz', 'Жук', 'T', 'Emp_No', 'ünï', 'serial#', 'emp#', 'v$sess', 'a$b', 'x#1', 'rev#', 'sys$'] if is_plain_name(w)]
_start = 'abcdfghijklmopqrstvwyzACDFGHIJKLMOPQRSTVWYZ_ÀÖÜéßЖ中'
_rest = 'abcxyzABC_0123456789éÜЖ$#'    # $ and # continue a word (Oracle serial#, v$session), also at its end
drawn_name = st.builds(lambda a, b: a + b, st.sampled_from(_start), st.text(alphabet=_rest, max_size=5)).filter(is_plain_name)
plain_name_text = st.one_of(st.sampled_from(BASE_NAMES), st.sampled_from(BASE_NAMES), drawn_name)
plain_name = plain_name_text.map(lambda n: L('name', n, False, name=n))

def frag_text(chars, frags, min_size=0, max_size=8):
    """text over single characters plus multi-character fragments, drawn as ONE string primitive (fast):
    private-use code points stand for the fragments and are expanded afterwards"""
    table = {0xE000 + i: f for i, f in enumerate(frags)}
    alphabet = ''.join(dict.fromkeys(chars)) + ''.join(chr(c) for c in table)
    return st.text(alphabet=alphabet, min_size=min_size, max_size=max_size).map(lambda s: s.translate(table))


_qbody_chars = "abcXYZ _-;.,()1*/+=<>é'"
_qfrags = ['--', '/*', 'select', 'END', '  ']
qname = st.one_of(
    frag_text(_qbody_chars, _qfrags, 1, 6).map(lambda s: L('qname', '"' + s + '"', False, name=s)),
    frag_text(_qbody_chars + '"', _qfrags, 1, 6).map(lambda s: L('qname', '`' + s + '`', False, name=s)),
)
any_name = st.one_of(plain_name, plain_name, plain_name, qname)

TYPES = ['int', 'integer', 'varchar', 'text', 'numeric', 'date', 'boolean', 'bigint']
FUNCS = ['count', 'sum', 'max', 'coalesce', 'lower', 'f', 'my_fn', 'substr', 'nvl', 'round', 'Fn2', 'üf']

# ------------------------------------------------------------------------------------------------------------
# literals

integer = st.integers(0, 99999).map(lambda i: L('num', str(i)))
floatn = st.sampled_from(['1.5', '0.25', '10.0', '3.', '0.5', '1e5', '2.5E-3', '0x1F', '7E2']).map(lambda s: L('num', s))
strbody = frag_text('abc XYZ;,()-*/"`$#@!%_é1:?[]\n\t ', ['--', '/*', '*/', "''", 'select', 'from', 'END', ';\n', '\r\n'])
string = strbody.map(lambda b: L('str', "'" + b + "'"))
placeholder = st.sampled_from(['?', '%s', ':p1', '$1', '%(nm)s', ':nm']).map(lambda s: L('ph', s))
null = st.just(kw('NULL'))
boolean = st.sampled_from(['TRUE', 'FALSE']).map(kw)
literal = st.one_of(integer, integer, floatn, string, string, placeholder, null, boolean)
value_literal = st.one_of(integer, integer, floatn, string, string, placeholder)     # no bare keywords


def column_ref_of(parts):
    out = [parts[0]]
    for p in parts[1:]:
        out.append(P('.', True, force=True))
        out.append([p[0], p[1], True, dict(p[3], force=True)])
    return out


column_ref = st.one_of(
    any_name.map(lambda n: [n]),
    any_name.map(lambda n: [n]),
    st.tuples(any_name, any_name).map(column_ref_of),
    st.tuples(plain_name, any_name, any_name).map(column_ref_of),
)

BINOPS = ['+', '-', '*', '/', '||', '%']
CMPOPS = ['=', '<>', '!=', '<', '>', '<=', '>=', 'LIKE', 'NOT LIKE', 'ILIKE']


def opl(o):
    if o == '*':
        return L('star', '*', True)
    return L('op', o, True)


def cmpl(o):
    return L('cmp', o, not o[0].isalpha())


def func_call(fn, args, over=None):
    name = L('name', fn, False, func=True)
    body = seq(name, L('lp', '(', True, force=fn.upper() in ALL_WORDS), tight_first(comma_list([W('arg', a) for a in args])), RP())
    if over is not None:
        body = seq(body, over)
    return W('func', body, name=fn, nargs=len(args))


def case_expr(operand, whens, els):
    out = [kw('CASE')]
    if operand is not None:
        out += W('operand', operand)
    for c, v in whens:
        out += W('when', seq(kw('WHEN'), c))
        out += W('then', seq(kw('THEN'), v))
    if els is not None:
        out += W('else', seq(kw('ELSE'), els))
    out.append(kw('END'))
    return W('case', out)


def typed_literal(t):
    kind, val, unit = t
    body = [L('type' if kind != 'TIMESTAMP' else 'kw', kind), L('str', val)]
    if unit:
        body.append(kw(unit))
    return W('typed', body)


TYPED = st.one_of(
    st.tuples(st.sampled_from(['DATE', 'TIMESTAMP']), st.sampled_from(["'2020-01-01'", "'1999-12-31 10:00'"]), st.none()),
    st.tuples(st.just('INTERVAL'), st.sampled_from(["'1'", "'2 3'", "'10'"]), st.sampled_from([None, 'DAY', 'HOUR', 'YEAR', 'MINUTE'])),
)


def _operand(e):
    """operand of a binary operator: a bare keyword literal (NULL, TRUE, FALSE) is written in parentheses"""
    real = [l for l in e if l[0] != 'mark']
    if len(real) == 1 and real[0][0] == 'kw':
        return W('paren', paren(e))
    return e


def over_clause():
    """OVER ( [PARTITION BY ..] [ORDER BY ..] ); the parenthesis may abut the keyword"""
    return st.tuples(st.lists(expr(0), min_size=0, max_size=2), st.lists(expr(0), min_size=0, max_size=2)).map(
        lambda t: seq(kw('OVER'), paren(seq(seq(kw('PARTITION'), kw('BY'), comma_list(t[0])) if t[0] else None,
                                            seq(kw('ORDER BY'), comma_list(t[1])) if t[1] else None), tight=True, over_lp=True)))


@functools.lru_cache(maxsize=None)
def expr(depth=2):
    base = st.one_of(value_literal.map(lambda l: [l]), column_ref, column_ref, literal.map(lambda l: [l]))
    if depth <= 0:
        return base
    sub = expr(depth - 1)
    fn = st.sampled_from(FUNCS)
    over = st.one_of(st.none(), st.none(), st.none(), over_clause())
    return st.one_of(
        base, base, base, base, base, base,
        st.tuples(sub, st.sampled_from(BINOPS), sub).map(lambda t: W('binop', seq(_operand(t[0]), opl(t[1]), tight_first(_operand(t[2]))))),
        st.tuples(fn, st.lists(sub, min_size=0, max_size=3), over).map(lambda t: func_call(*t)),
        sub.map(lambda e: W('paren', paren(e))),
        st.tuples(st.one_of(st.none(), st.none(), expr(0)), st.lists(st.tuples(cond(depth - 1), sub), min_size=1, max_size=2),
                  st.one_of(st.none(), sub)).map(lambda t: case_expr(*t)),
        st.tuples(st.none(), st.lists(st.tuples(cond(0), expr(0)), min_size=1, max_size=2), st.one_of(st.none(), expr(0))).map(lambda t: case_expr(*t)),
        st.tuples(sub, st.sampled_from(TYPES)).map(lambda t: seq(W('paren', paren(t[0])), P('::'), L('type', t[1], True))),
        st.tuples(column_ref, st.sampled_from(TYPES)).map(lambda t: seq(t[0], P('::'), L('type', t[1], True))),
        st.tuples(sub, st.sampled_from(TYPES)).map(lambda t: W('func', seq(L('name', 'CAST', False, func=True), L('lp', '(', True, force=True), tight_first(seq(t[0], kw('AS'), L('type', t[1]))), RP()), name='CAST', nargs=-1)),
        TYPED.map(typed_literal),
        # (behind a name ending in $ or # a bracket starts a [quoted name], not an index: documented lexer rule)
        st.tuples(plain_name.filter(lambda n: n[1][-1] not in '$#'), st.integers(0, 9)).map(lambda t: seq(t[0], L('lb', '[', True, force=True), L('num', str(t[1]), True), L('rb', ']', True))),
        st.just(func_call('count', [[L('star', '*', True)]])),
        select(depth - 1).map(lambda s: W('paren', paren(s), subquery=True)),
    )


@functools.lru_cache(maxsize=None)
def cond(depth=2):
    e = expr(min(max(depth, 0), 1))
    simple = st.one_of(
        st.tuples(e, st.sampled_from(CMPOPS), e).map(
            lambda t: W('cmp', seq(W('left', t[0]), cmpl(t[1]), W('right', tight_first(t[2]) if not t[1][0].isalpha() else t[2])), op=t[1])),
        st.tuples(e, st.sampled_from([['IS', 'NULL'], ['IS', 'NOT NULL']])).map(lambda t: seq(t[0], [kw(w) for w in t[1]])),
        st.tuples(e, e, e, st.booleans()).map(lambda t: seq(t[0], kw('NOT') if t[3] else None, kw('BETWEEN'), t[1], kw('AND', between=True), t[2])),
        st.tuples(e, st.booleans(), st.lists(value_literal, min_size=1, max_size=3)).map(
            lambda t: seq(t[0], kw('NOT') if t[1] else None, kw('IN'), W('paren', paren(comma_list([[x] for x in t[2]]))))),
    )
    if depth <= 0:
        return simple
    sub = cond(depth - 1)
    return st.one_of(
        simple, simple, simple, simple, simple,
        st.tuples(sub, st.sampled_from(['AND', 'OR']), sub).map(lambda t: seq(t[0], kw(t[1], clause=True), t[2])),
        sub.map(lambda c: W('paren', paren(c))),
        sub.map(lambda c: seq(kw('NOT'), W('paren', paren(c)) if _starts_with_null(c) else c)),      # NOT NULL would lex as one keyword
        st.tuples(e, select(depth - 1)).map(lambda t: seq(t[0], kw('IN'), W('paren', paren(t[1]), subquery=True))),
        select(depth - 1).map(lambda s: seq(kw('EXISTS'), W('paren', paren(s), subquery=True))),
    )


def _starts_with_null(lex):
    for l in lex:
        if l[0] != 'mark':
            return l[0] == 'kw' and l[1].upper() == 'NULL'
    return False


alias = st.one_of(st.none(), st.none(), st.tuples(st.booleans(), any_name))


def with_alias(item, al):
    if al is None:
        return item
    as_, n = al
    real = [l for l in item if l[0] != 'mark']
    if len(real) == 1 and real[0][0] == 'kw':
        # a bare keyword literal: NULL takes an alias with AS only, TRUE/FALSE none (not forms the grouping engine documents)
        if real[0][1].upper() != 'NULL':
            return item
        as_ = True
    return seq(item, kw('AS') if as_ else None, [n[0], n[1], False, dict(n[3], alias=True)])


@functools.lru_cache(maxsize=None)
def table_ref(depth):
    t = st.tuples(column_ref, alias).map(lambda t: with_alias(*t))
    if depth <= 0:
        return t
    sq = st.tuples(select(depth - 1), st.tuples(st.booleans(), any_name)).map(
        lambda t: with_alias(W('paren', paren(t[0]), subquery=True), t[1]))
    return st.one_of(t, t, t, t, t, t, sq)


JOINS = ['JOIN', 'LEFT JOIN', 'INNER JOIN', 'LEFT OUTER JOIN', 'CROSS JOIN', 'RIGHT JOIN', 'FULL OUTER JOIN', 'NATURAL JOIN']
SETOPS = ['UNION', 'UNION ALL', 'EXCEPT', 'EXCEPT ALL', 'EXCEPT DISTINCT', 'UNION DISTINCT']


@functools.lru_cache(maxsize=None)
def select(depth=2):
    d = max(depth, 0)
    sel_item = st.one_of(st.tuples(expr(min(d, 1)), alias).map(lambda t: with_alias(*t)),
                         st.tuples(expr(0), alias).map(lambda t: with_alias(*t)),
                         st.just([L('star', '*')]),
                         plain_name.map(lambda n: [n, P('.', True, force=True), L('star', '*', True, force=True)]))
    joins = st.one_of(st.just([]), st.just([]), st.lists(st.tuples(st.sampled_from(JOINS), table_ref(d), cond(0)), max_size=2))
    # an ordering suffix is written after column references and numbers only (a bare keyword such as NULL is not an
    # order expression the grouping engine is documented to handle)
    order_item = st.tuples(expr(0), st.sampled_from([None, None, 'ASC', 'DESC', 'DESC NULLS LAST', 'ASC NULLS FIRST'])).map(
        lambda t: seq(t[0], L('kw', t[1], False, order=True) if t[1] and t[0][0][0] in ('name', 'qname', 'num') else None))

    def mk(distinct, items, froms, js, where, group, having, order, limit):
        out = [L('kw', 'SELECT', False, lead='SELECT')]
        if distinct:
            out.append(kw('DISTINCT'))
        out += W('list', comma_list([W('item', i) for i in items]), ctx='select', n=len(items))
        out += seq(kw('FROM', clause=True), W('list', comma_list([W('item', i) for i in froms]), ctx='from', n=len(froms)))
        for j, t, c in js:
            out += seq(kw(j, clause=True), t)
            if j not in ('CROSS JOIN', 'NATURAL JOIN'):
                out += seq(kw('ON'), c)
        if where is not None:
            out += W('where', seq(kw('WHERE', clause=True), where))
        if group:
            out += seq(kw('GROUP BY', clause=True), W('list', comma_list([W('item', i) for i in group]), ctx='group', n=len(group)))
        if having is not None and group:
            out += seq(kw('HAVING', clause=True), having)
        if order:
            out += seq(kw('ORDER BY', clause=True), W('list', comma_list([W('item', i) for i in order]), ctx='order', n=len(order)))
        if limit is not None:
            out += seq(kw('LIMIT', clause=True), L('num', str(limit[0])))
            if limit[1] is not None:
                out += seq(kw('OFFSET'), L('num', str(limit[1])))
        return out
    one = st.builds(mk, st.booleans(), st.lists(sel_item, min_size=1, max_size=3), st.lists(table_ref(d), min_size=1, max_size=2), joins,
                    st.one_of(st.none(), cond(min(d, 1)), cond(0)), st.one_of(st.just([]), st.lists(expr(0), max_size=2)), st.one_of(st.none(), cond(0)),
                    st.one_of(st.just([]), st.lists(order_item, max_size=2)), st.one_of(st.none(), st.tuples(st.integers(0, 100), st.one_of(st.none(), st.integers(0, 9)))))
    if depth <= 0:
        return one
    return st.one_of(one, one, one, one, one, st.tuples(one, st.sampled_from(SETOPS), one).map(
        lambda t: seq(t[0], kw(t[1], clause=True), t[2])))


def _lead(word, *rest, **meta):
    return L('kw', word, False, lead=word, **meta)


@functools.lru_cache(maxsize=None)
def insert():
    def mk(t, cols, rows, sel, upsert):
        head = seq(_lead('INSERT'), kw('INTO'), t, (paren(comma_list([[c] for c in cols])) if cols else None))
        if sel is not None:
            return seq(head, sel)
        # upsert: a SET clause directly behind other keywords (ON CONFLICT DO UPDATE SET ...)
        tail = seq(kw('ON'), kw('CONFLICT'), kw('DO'), L('kw', 'UPDATE'), kw('SET', clause=True),
                   comma_list([seq([n], L('cmp', '=', True), tight_first(e)) for n, e in upsert])) if upsert else None
        return seq(head, kw('VALUES'), comma_list([W('paren', paren(comma_list(r))) for r in rows]), tail)
    return st.builds(mk, column_ref, st.lists(any_name, max_size=3), st.lists(st.lists(expr(1), min_size=1, max_size=3), min_size=1, max_size=2),
                     st.one_of(st.none(), st.none(), select(0)), st.one_of(st.none(), st.lists(st.tuples(any_name, expr(0)), min_size=1, max_size=2)))


@functools.lru_cache(maxsize=None)
def update():
    def mk(t, sets, where, ret):
        return seq(_lead('UPDATE'), t, kw('SET', clause=True), comma_list([seq([n], L('cmp', '=', True), tight_first(e)) for n, e in sets]),
                   (W('where', seq(kw('WHERE', clause=True), where)) if where else None), (seq(kw('RETURNING'), ret) if ret else None))
    return st.builds(mk, column_ref, st.lists(st.tuples(any_name, expr(1)), min_size=1, max_size=3), st.one_of(st.none(), cond(1)),
                     st.one_of(st.none(), st.none(), column_ref))


@functools.lru_cache(maxsize=None)
def delete():
    return st.builds(lambda t, w, ret: seq(_lead('DELETE'), kw('FROM', clause=True), t, (W('where', seq(kw('WHERE', clause=True), w)) if w else None),
                                           (seq(kw('RETURNING'), ret) if ret else None)),
                     column_ref, st.one_of(st.none(), cond(1)), st.one_of(st.none(), st.none(), column_ref))


@functools.lru_cache(maxsize=None)
def create_table():
    coldef = st.tuples(any_name, st.sampled_from(TYPES), st.sampled_from([None, 'NOT NULL', 'PRIMARY KEY'])).map(
        lambda t: seq(t[0], L('type', t[1]), kw(t[2]) if t[2] else None))
    plain = st.builds(lambda orr, t, cols: seq(_lead('CREATE OR REPLACE' if orr else 'CREATE'), kw('TABLE'), t, paren(comma_list(cols))),
                      st.booleans(), column_ref, st.lists(coldef, min_size=1, max_size=3))
    ctas = st.builds(lambda t, s: seq(_lead('CREATE'), kw('TABLE'), t, kw('AS'), s), column_ref, select(1))
    view = st.builds(lambda orr, t, s: seq(_lead('CREATE OR REPLACE' if orr else 'CREATE'), kw('VIEW'), t, kw('AS'), s),
                     st.booleans(), column_ref, select(1))
    index = st.builds(lambda n, t, cols: seq(_lead('CREATE'), kw('INDEX'), [n], kw('ON'), t, paren(comma_list([[c] for c in cols]))),
                      plain_name, column_ref, st.lists(any_name, min_size=1, max_size=3))
    return st.one_of(plain, plain, ctas, view, index)


@functools.lru_cache(maxsize=None)
def drop_alter():
    drop = st.builds(lambda what, t: seq(_lead('DROP'), kw(what), t), st.sampled_from(['TABLE', 'VIEW', 'INDEX']), column_ref)
    alter = st.builds(lambda t, c, ty: seq(_lead('ALTER'), kw('TABLE'), t, kw('ADD'), kw('COLUMN'), [c], L('type', ty)),
                      column_ref, any_name, st.sampled_from(TYPES))
    return st.one_of(drop, alter)


@functools.lru_cache(maxsize=None)
def cte():
    def mk(rec, defs, body):
        body = list(body)
        return seq(L('kw', 'WITH', False, lead_cte=True), kw('RECURSIVE') if rec else None,
                   comma_list([seq([n], (paren(comma_list([[c] for c in cols])) if cols else None), kw('AS'), W('paren', paren(s), subquery=True))
                               for n, cols, s in defs]), body)
    dml = st.one_of(select(1), select(1), insert(), update(), delete())
    return st.builds(mk, st.booleans(), st.lists(st.tuples(plain_name, st.lists(plain_name, max_size=2), select(0)), min_size=1, max_size=3), dml)


@functools.lru_cache(maxsize=None)
def assign_statement():
    """MySQL user-variable assignments: SET @v := e [, @w := e]  /  SELECT @v := e [, @w := e] [FROM t]
    (the Assignment group runs to the end of the statement, so only relations between runs are checked on these)"""
    var = st.sampled_from(['@a', '@v1', '@total', '@b', '@x_y'])
    one = st.tuples(var, expr(0)).map(lambda t: seq(L('var', t[0]), L('assign', ':='), t[1]))
    items = st.lists(one, min_size=1, max_size=3).map(comma_list)
    sel = st.tuples(items, st.one_of(st.none(), column_ref)).map(
        lambda t: seq(L('kw', 'SELECT', False, lead='SELECT'), t[0], seq(kw('FROM'), t[1]) if t[1] else None))
    set_ = items.map(lambda it: seq(L('kw', 'SET', False), it))
    return st.one_of(sel, sel, set_)


@functools.lru_cache(maxsize=None)
def statement(assign=False):
    """one plain (non-procedural) statement, wrapped in a 'stmt' mark whose info names the leading keyword"""
    def wrap(lx):
        lead = None
        for l in lx:
            if l[0] == 'mark':
                continue
            if l[0] == 'lp':
                break                     # statement starts with a parenthesis: no leading keyword
            if l[3].get('lead'):
                lead = l[3]['lead']
            elif l[3].get('lead_cte'):
                # type of a WITH statement = the DML keyword that follows the CTE definitions (depth 0 only)
                depth = 0
                for x in lx:
                    if x[0] == 'lp':
                        depth += 1
                    elif x[0] == 'rp':
                        depth -= 1
                    elif depth == 0 and x[0] == 'kw' and x[3].get('lead'):
                        lead = x[3]['lead']
                        break
            break
        return W('stmt', lx, type=lead or 'UNKNOWN')
    # a parenthesised query first: the statement starts with '(' (get_type() is UNKNOWN for it)
    paren_led = st.tuples(select(0), st.sampled_from(SETOPS), select(1)).map(
        lambda t: seq(W('paren', paren(t[0]), subquery=True), kw(t[1], clause=True), t[2]))
    alts = [select(2), select(1), select(1), insert(), update(), delete(), create_table(), drop_alter(), cte(), paren_led]
    if assign:
        alts.append(assign_statement())
    return st.one_of(*alts).map(wrap)


@functools.lru_cache(maxsize=None)
def case_heavy_select():
    """SELECT whose items are CASE expressions with AND/OR conditions (the general grammar reaches CASE in ~2% of cases)"""
    andor = st.tuples(cond(0), st.sampled_from(['AND', 'OR']), cond(0)).map(lambda t: seq(t[0], kw(t[1], clause=True), t[2]))
    c = weighted((2, cond(0)), (3, andor), (2, cond(1)))
    e = expr(0)
    case = st.tuples(st.one_of(st.none(), st.none(), e), st.lists(st.tuples(c, e), min_size=1, max_size=3), st.one_of(st.none(), e)).map(lambda t: case_expr(*t))
    # also: CASE / parenthesised conditions as one of several call arguments, and unary signs in front of an operand
    # (formatter properties only: the clause properties do not claim anything about unary operators)
    fn = st.sampled_from(FUNCS)
    call = st.one_of(st.tuples(fn, e, over_clause()).map(lambda t: func_call(t[0], [t[1]], t[2])),          # window function
                     st.tuples(fn, case, e).map(lambda t: func_call(t[0], [t[1], t[2]])),
                     st.tuples(fn, e, c).map(lambda t: func_call(t[0], [t[1], W('paren', paren(t[2]))])),
                     st.tuples(fn, e, fn, e, c).map(lambda t: func_call(t[0], [t[1], func_call(t[2], [t[3], W('paren', paren(t[4]))]), [L('num', '0')]])))
    signed = st.one_of(st.tuples(st.sampled_from(['-', '+']), column_ref).map(lambda t: seq(L('op', t[0]), tight_first(t[1]))),
                       st.tuples(st.sampled_from(['-', '+']), e).map(lambda t: seq(L('op', t[0]), W('paren', paren(t[1])))),
                       st.tuples(column_ref, st.sampled_from(['*', '+', '/']), st.sampled_from(['-', '+']), column_ref).map(
                           lambda t: seq(t[0], opl(t[1]), L('op', t[2]), t[3])),
                       # a sign written directly behind a comparison or '*' (a=-b, x>=+y, a*-b): two tokens for the lexer
                       st.tuples(column_ref, st.sampled_from(['=', '>=', '<>', '<', '*']), st.sampled_from(['-', '+']), column_ref).map(
                           lambda t: seq(t[0], L('cmp', t[1], True) if t[1] != '*' else opl('*'), L('op', t[2], True, after_cmp=True), tight_first(t[3]))),
                       # ... and the same written without any blank: a=-b
                       st.tuples(plain_name, st.sampled_from(['=', '>=', '<>', '<', '*']), st.sampled_from(['-', '+']), plain_name).map(
                           lambda t: seq([t[0]], L('cmp', t[1], True, force=True) if t[1] != '*' else L('star', '*', True, force=True),
                                         L('op', t[2], True, after_cmp=True, force=True), [[t[3][0], t[3][1], True, dict(t[3][3], force=True)]])))
    item = weighted((2, st.tuples(case, alias).map(lambda t: with_alias(*t))), (1, e), (2, call), (2, signed))

    def mk(items, frm, where, order):
        out = [L('kw', 'SELECT', False, lead='SELECT')]
        out += W('list', comma_list([W('item', i) for i in items]), ctx='select', n=len(items))
        out += seq(kw('FROM', clause=True), frm)
        if where is not None:
            out += W('where', seq(kw('WHERE', clause=True), where))
        if order is not None:
            out += seq(kw('ORDER BY', clause=True), order)
        return W('stmt', out, type='SELECT')
    return st.builds(mk, st.lists(item, min_size=1, max_size=3), column_ref, st.one_of(st.none(), cond(1)), st.one_of(st.none(), case))


def small_statement():
    def wrap(lx):
        lead = next((l[3].get('lead') for l in lx if l[0] != 'mark'), None)
        return W('stmt', lx, type=lead or 'UNKNOWN')
    return st.one_of(select(0), select(1), update(), delete(), drop_alter()).map(wrap)


# ------------------------------------------------------------------------------------------------------------
# layout: whitespace, comments, keyword spelling

WS = [' ', ' ', ' ', '  ', '\n', '\t', '\n  ', ' \n', '\r\n', '   ', '\n\n', ' \t']
WS_INNER = [' ', ' ', '  ', '\n', '\t', '\r\n', ' \n ']
_cbody = frag_text("abc ;'()x,*\"`-/é$:\t", ['select', 'END', "';'", 'GO', "don't", '--', '/ *'], 0, 6)
def _noterm(s):
    while '*/' in s:
        s = s.replace('*/', '*')
    return s


COMMENT = st.one_of(
    _cbody.map(lambda s: '/*' + _noterm(s + '*')[:-1] + '*/'),
    _cbody.map(lambda s: '/*' + _noterm(s.lstrip('+') + '*')[:-1] + '*/'),
    st.tuples(_cbody, st.sampled_from(['\n', '\n', '\r\n', '\r'])).map(lambda t: '--' + t[0].replace('\n', ' ').replace('\r', ' ') + t[1]),
    st.tuples(_cbody, st.sampled_from(['\n'])).map(lambda t: '# c' + t[0].replace('\n', ' ').replace('\r', ' ') + t[1]),
    _cbody.map(lambda s: '/*+ ' + _noterm(s + '*')[:-1] + '*/'),
    _cbody.map(lambda s: '--+ ' + s.replace('\n', ' ').replace('\r', ' ') + '\n'),
)

_WORDY_EXTRA = set('_$#@')
_OPCH = set('-+/*<>=~!@#%^&|?:.$\\')
_QUOTE = set('\'"`´')


def _wordy(c):
    return c.isalnum() or c in _WORDY_EXTRA or ord(c) > 127


def safe_pair(a, b):
    """may a lexeme ending in character a be followed directly by a lexeme starting with character b
    without the two forming a different token?  Conservative character table."""
    if _wordy(a) and _wordy(b):
        return False
    if a in _OPCH and b in _OPCH:
        return False
    if a in _OPCH and (_wordy(b) or b in _QUOTE) and a in ':$?@#%\\-.&|':
        return False
    if _wordy(a) and (b in _QUOTE or b in '$.:?[@#'):
        return False
    if a in _QUOTE and (_wordy(b) or b in _QUOTE):
        return False
    if a in '])' and b == '[':
        return False
    if a.isdigit() and b == '.':
        return False
    if a == '.' and (b.isdigit() or b == '.'):
        return False
    return True


def can_tight(prev, cur):
    if prev is None:
        return False
    if cur[3].get('force'):
        return True
    if prev[0] == 'comment' and cur[0] in ('name', 'num', 'kw', 'str', 'qname', 'type') and cur[0] != 'comment':
        # a comment separates its neighbours: the word behind it may abut it even if it must not abut a word (a/*c*/from)
        return True
    if not cur[2]:
        return False
    if prev[0] == 'comment':
        if prev[1][-1] in '\n\r':
            return True
        return cur[0] in ('lp', 'rp', 'punct', 'name', 'num', 'kw', 'str', 'qname', 'type')
    if cur[3].get('after_cmp') and prev[0] != 'comment' and prev[1] in ('=', '>=', '<>', '<', '*'):
        return True
    if cur[0] == 'comment':
        if cur[1][0] == '#':          # '# ' only starts a comment when the '#' cannot continue a word
            return False
        return prev[0] in ('lp', 'rp', 'punct', 'num', 'str', 'qname', 'name', 'kw', 'type') and prev[1][-1] not in '-/*'
    return safe_pair(prev[1][-1], cur[1][0])


def respell_kw(text, code, inner):
    """keyword casing per word from code; inner whitespace between words from `inner`"""
    words = text.split(' ')
    out = []
    for i, w in enumerate(words):
        c = (code >> (2 * i)) & 3
        out.append(w.upper() if c == 0 else w.lower() if c == 1 else w.capitalize() if c == 2 else
                   ''.join(ch.lower() if j % 2 else ch.upper() for j, ch in enumerate(w)))
    return inner.join(out)


@st.composite
def layout(draw, lex, comments=0, ws=True, case=True, tight=True, inner=True, comment_strategy=None, raw=None, pool=None):
    """lex: lexeme list *with marks*.  Returns a list in which comment lexemes have been inserted, keyword lexemes
    re-spelled (meta 'canon' keeps the canonical text) and every real lexeme carries meta 'gap' (the whitespace
    written before it).  comments: per-gap probability in percent."""
    real = [l for l in lex if l[0] != 'mark']
    n = len(real)
    # Hypothesis biases values drawn *after* a large structure towards their simplest form, so callers that build big
    # scripts draw the layout bytes and a pool of comments FIRST and pass them in (raw is used cyclically)
    if raw is None:
        raw = draw(st.binary(min_size=3 * n, max_size=3 * n))       # one primitive draw; zeros = canonical layout
    if len(raw) < 3:
        raw = b'\x00\x00\x00'
    m = len(raw) // 3
    codes = [int.from_bytes(raw[3 * (j % m):3 * (j % m) + 3], 'little') ^ (j // m) for j in range(n)]
    out = []
    prev = None
    i = 0
    for l in lex:
        if l[0] == 'mark':
            out.append(l)
            continue
        c = codes[i]
        i += 1
        meta = dict(l[3])
        text = l[1]
        if l[0] == 'kw' or (l[0] == 'cmp' and text[0].isalpha()) or (l[0] == 'type'):
            meta['canon'] = text
            cc = (c >> 12) & 0xFF if case else 0
            inn = WS_INNER[(c >> 20) % len(WS_INNER)] if inner else ' '
            text = respell_kw(text, cc, inn)
        cur = [l[0], text, l[2], meta]
        if comments and prev is not None and not meta.get('force') and ((c >> 7) & 127) >= 128 - (comments * 128) // 100:       # never split a forced-tight pair (a.b, a[1], f()
            ctext = pool[(c >> 14) % len(pool)] if pool else draw(comment_strategy or COMMENT)
            cm = ['comment', ctext, True, {}]
            if can_tight(prev, cm) and (c >> 5) & 1:
                cm[3]['gap'] = ''
            else:
                cm[3]['gap'] = WS[(c >> 1) % len(WS)] if ws else ' '
            out.append(cm)
            prev = cm
            if pool and (c >> 21) % 4 == 0:
                # a cluster: a second comment (possibly a hint) directly after the first, glued / blank / on the next line
                c2 = pool[(c >> 16) % len(pool)]
                g2 = ['', ' ', '\n', '  '][(c >> 3) % 4]
                if g2 == '' and (c2[0] == '#' or (cm[1][-1] not in '\r\n' and not cm[1].endswith('*/'))):
                    g2 = ' '
                cm2 = ['comment', c2, True, {'gap': g2, 'cluster': True}]
                out.append(cm2)
                prev = cm2
        if prev is None:
            gap = ''
        elif can_tight(prev, cur) and (meta.get('force') or (tight and (c & 1))):
            gap = ''
        else:
            gap = WS[(c >> 1) % len(WS)] if ws else ' '
        meta['gap'] = gap
        out.append(cur)
        prev = cur
    return out


def canonical(lex):
    """deterministic layout: single blanks, tight where the generator allows and the pair is safe, keywords as written"""
    out = []
    prev = None
    for l in lex:
        if l[0] == 'mark':
            out.append(l)
            continue
        meta = dict(l[3])
        cur = [l[0], l[1], l[2], meta]
        if prev is None:
            meta['gap'] = ''
        elif can_tight(prev, cur):
            meta['gap'] = ''
        else:
            meta['gap'] = ' '
        out.append(cur)
        prev = cur
    return out


def assemble(laid, lead='', tail=''):
    """-> (text, lexemes without marks, spans, marks);  spans[i] = (start, end) of lexeme i in text"""
    clean, marks = strip_marks(laid)
    parts = [lead]
    pos = len(lead)
    spans = []
    for l in clean:
        g = l[3].get('gap', ' ')
        parts.append(g)
        pos += len(g)
        spans.append((pos, pos + len(l[1])))
        parts.append(l[1])
        pos += len(l[1])
    parts.append(tail)
    return ''.join(parts), clean, spans, marks


# ------------------------------------------------------------------------------------------------------------
# scripts

SEMI = ['semi', ';', True, {}]


def predrawn_layout(comments=0, comment_strategy=None, nbytes=900):
    """layout material to be drawn BEFORE a big structure: raw gap/casing codes and a pool of comments"""
    pool = st.lists(comment_strategy or COMMENT, min_size=5, max_size=5) if comments else st.just(None)
    return st.tuples(st.binary(min_size=nbytes, max_size=nbytes), pool)


@st.composite
def script(draw, min_statements=1, max_statements=4, comments=10, stmt=None, last_semi=None, go=False, assign=False, **lay):
    """-> laid-out lexeme list (with marks) of k statements separated by ';' lexemes (go=True: some separators are
    followed by a GO batch-separator keyword, which ends a batch just like the ';' before it ended the statement, and some
    statements are ended by GO alone)"""
    k = draw(st.integers(min_statements, max_statements))
    raw, pool = draw(predrawn_layout(comments, lay.get('comment_strategy')))
    flags = draw(st.lists(st.integers(0, 5), min_size=k + 1, max_size=k + 1))
    stmts = [draw(stmt if stmt is not None else statement(assign)) for _ in range(k)]
    lex = []
    for i, s in enumerate(stmts):
        lex.extend(s)
        if i < k - 1 or ((flags[k] % 2 == 1) if last_semi is None else last_semi):
            if go and flags[i] % 3 == 1:
                # a batch ended by GO alone, without any semicolon
                lex.append(L('kw', 'GO', False, go=True))
                continue
            lex.append(list(SEMI))
            if go and flags[i] % 3 == 0:
                lex.append(L('kw', 'GO', False, go=True))
    return draw(layout(lex, comments=comments, raw=raw, pool=pool, **lay))


def rendered_script(max_statements=3, comments=10):
    return script(0, max_statements, comments=comments, assign=True).map(lambda laid: assemble(laid)[0])


def words_of(clean):
    """expected significant words (kind, text, lexeme index, whitespace written before it in the input):
    multi-word keywords contribute one entry per word"""
    out = []
    for i, l in enumerate(clean):
        gap = l[3].get('gap', ' ')
        if l[0] in ('kw', 'cmp', 'type') and len(l[1].split()) > 1:
            ws = re.split(r'(\s+)', l[1])
            for j in range(0, len(ws), 2):
                out.append((l[0], ws[j], i, gap if j == 0 else ws[j - 1]))
        else:
            out.append((l[0], l[1], i, gap))
    return out
