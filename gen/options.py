"""G5 option sets: valid documented options (docs/source/api.rst) and the table of invalid values."""
from hypothesis import strategies as st

LAYOUT_BOOL = ['reindent', 'reindent_aligned', 'strip_whitespace', 'use_space_around_operators', 'indent_tabs',
               'indent_after_first', 'indent_columns', 'comma_first', 'compact']
LAYOUT_INT = {'indent_width': (1, 8), 'wrap_after': (0, 80)}
CASES = ['upper', 'lower', 'capitalize']


def bitset(n):
    """n independent fair bits as an int (st.integers over a range is biased towards small values: high bits rare)"""
    return st.lists(st.booleans(), min_size=n, max_size=n).map(lambda bs: sum(1 << i for i, b in enumerate(bs) if b))


@st.composite
def layout_options(draw, require=None, allow=None):
    """every subset of the 11 layout options with drawn values (possibly empty = 'none')"""
    names = [n for n in LAYOUT_BOOL + list(LAYOUT_INT) if allow is None or n in allow]
    bits = draw(bitset(len(names)))
    opts = {}
    for i, n in enumerate(names):
        if bits >> i & 1:
            if n == 'wrap_after':
                # small, medium and large margins alike (a uniform draw from 0..80 rarely lets a whole list fit)
                opts[n] = draw(st.sampled_from([0, 1, 5, 10, 20, 30, 40, 60, 80, 120, 200]))
            elif n in LAYOUT_INT:
                lo, hi = LAYOUT_INT[n]
                opts[n] = draw(st.integers(lo, hi))
            else:
                opts[n] = draw(st.sampled_from([True, True, True, False]))
    for n in require or ():
        opts[n] = True
    return opts


@st.composite
def targeted_options(draw):
    opts = {}
    bits = draw(bitset(5))
    if bits & 1:
        opts['strip_comments'] = True
    if bits & 2:
        opts['keyword_case'] = draw(st.sampled_from(CASES))
    if bits & 4:
        opts['identifier_case'] = draw(st.sampled_from(CASES))
    if bits & 8:
        opts['truncate_strings'] = draw(st.integers(2, 40))
        if draw(st.booleans()):
            opts['truncate_char'] = draw(st.sampled_from(['[...]', '…', '..', '~', '']))
    if bits & 16:
        opts['output_format'] = draw(st.sampled_from(['sql', 'python', 'php']))
    return opts


@st.composite
def valid_options(draw):
    """any subset of all documented options (right_margin is accepted by validate_options but undocumented and its
    filter raises NotImplementedError by design: excluded, DESIGN.md 2.6)"""
    opts = draw(layout_options())
    if draw(st.booleans()):
        opts.update(draw(targeted_options()))
    return opts


class Unhashable:
    def __repr__(self):
        return '<object>'


def invalid_table():
    """(option, value, why) for every documented option and every value class the docs make invalid"""
    junk = ['yes', 'no', '', 'True', 2, -1, 1.5, None, [], {}, (), [True], 'upper ', 'UPPER', b'upper', float('nan')]
    out = []
    for opt in ('keyword_case', 'identifier_case'):
        for v in ['Upper', 'title', 'camel', '', 1, True, [], ['upper'], {}, b'upper', 0.0]:
            out.append((opt, v))
    for v in ['SQL', 'java', '', 1, True, [], {}, b'php']:
        out.append(('output_format', v))
    for opt in ('strip_comments', 'use_space_around_operators', 'strip_whitespace', 'reindent', 'reindent_aligned', 'indent_after_first',
                'indent_tabs', 'indent_columns', 'comma_first', 'compact'):
        for v in ['yes', 'no', '', 'True', 2, -1, 1.5, [], {}, (), [True], 'x', b'1']:
            out.append((opt, v))
    for v in ['a', '', 'ten', [], {}, (), None, 1, 0, -1, -100, 1.9, '1', '0', '-5', float('nan'), float('inf'), float('-inf'), object]:
        if v is None:
            continue
        out.append(('truncate_strings', v))
    for v in ['a', '', 'ten', [], {}, (), 0, -1, -100, '0', '-5', 0.5, float('nan'), float('inf'), float('-inf'), object]:
        out.append(('indent_width', v))
    for v in ['a', '', 'ten', [], {}, (), -1, -100, '-5', -0.5 - 1, float('nan'), float('inf'), float('-inf'), object]:
        out.append(('wrap_after', v))
    return out
