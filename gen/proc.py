"""G4 procedural grammar (C17): CREATE [OR REPLACE] FUNCTION|PROCEDURE|TRIGGER ... BEGIN ... END; with nested blocks.

Each construct that a listed known finding is about carries a hazard flag; `body(exclude=...)` does not generate
excluded constructs at all (construction, not filtering) and reports the hazards a case contains."""
import functools

from hypothesis import strategies as st

from gen import grammar as G
from gen.grammar import L, kw, P, W, seq, paren, comma_list

HAZARDS = ('declare_section_before_begin', 'loop_end_loop', 'case_statement', 'nested_case_expr')

SEMI_IN = ['semi', ';', True, {'inner': True}]


def semi():
    return list(SEMI_IN)


def _case_select(nested):
    c = G.cond(0)
    e = G.expr(0)

    def mk(c1, e1, e2, c2, e3, t):
        inner = G.case_expr(None, [(c2, e3)], None) if nested else e2
        return seq(L('kw', 'SELECT', False, lead='SELECT'), G.case_expr(None, [(c1, e1)], inner), kw('FROM'), t)
    return st.builds(mk, c, e, e, c, e, G.column_ref)


def _w(text):
    """tiny lexeme writer for the pool of cheap body statements (one draw each: keeps nested bodies inside
    Hypothesis' size budget, so deep nesting is actually generated)"""
    out = []
    for w in text.split():
        if w == '(':
            out.append(L('lp', '(', True))
        elif w == ')':
            out.append(G.RP())
        elif w == ',':
            out.append(P(','))
        elif w == ':=':
            out.append(L('assign', ':='))
        elif w in ('=', '<', '>', '<>'):
            out.append(L('cmp', w, True))
        elif w in ('+', '-', '||'):
            out.append(L('op', w, True))
        elif w == '*':
            out.append(L('star', '*'))
        elif w == 'int':
            out.append(L('type', w))
        elif w[0].isdigit():
            out.append(L('num', w))
        elif w[0] == "'":
            out.append(L('str', w.replace('_', ' ')))
        elif w.isupper():
            out.append(kw(w.replace('_', ' ')) if w not in ('SELECT', 'UPDATE', 'DELETE', 'INSERT') else L('kw', w, False, lead=w))
        elif w in ('int',):
            out.append(L('type', w))
        else:
            out.append(L('name', w))
    return out


CHEAP = [_w(t) for t in [
    'RETURN v', 'RETURN 1', 'v := v + 1', 'w := 0', "v := 'a;b'", 'NULL', 'CALL p ( 1 )', 'SELECT 1', 'SELECT a FROM t', 'SELECT a , b FROM t WHERE c = 2',
    'UPDATE t SET a = 1 WHERE b = 2', 'DELETE FROM t WHERE a < 3', 'INSERT INTO t VALUES ( 1 , 2 )', "INSERT INTO t VALUES ( 'x;' )",
    'SELECT CASE WHEN a = 1 THEN 2 ELSE 3 END FROM t', 'v := CASE WHEN a > 1 THEN 1 ELSE 0 END', 'SELECT * FROM t WHERE a IN ( 1 , 2 ) ORDER_BY b', 'SET v = 2',
    'CREATE_OR_REPLACE VIEW v AS SELECT a FROM t', 'CREATE_OR_REPLACE TABLE t2 AS SELECT 1', 'CREATE TABLE t3 ( a int )', 'DROP TABLE t3', 'EXPLAIN CREATE_OR_REPLACE VIEW v AS SELECT 1',
    'SELECT a FROM t WHERE b = 1 FOR UPDATE', 'OPEN c FOR SELECT a FROM t', 'OPEN c', 'FETCH c INTO v', 'CLOSE c', 'DECLARE c CURSOR FOR SELECT a FROM t',
    'DECLARE CONTINUE HANDLER FOR NOT FOUND SET v = 1', 'DECLARE w int',
    'DROP TABLE IF EXISTS t3', 'CREATE TABLE IF NOT EXISTS t3 ( a int )', 'DROP VIEW IF EXISTS v',
    # fields / columns named like block keywords: behind a dot they are names (NEW.end, r.loop), never openers or closers
    'SET new.end = old.begin + 1', 'v := r.end - r.loop', 'SELECT x.end , x.if FROM x WHERE x.while = 1', 'UPDATE t SET a = 1 WHERE t.end < t.for', 'w := old.declare',
    'INSERT INTO t VALUES ( 1 ) ON conflict ( a ) DO UPDATE SET b = 2', 'INSERT INTO t VALUES ( 1 , 2 ) ON CONFLICT DO NOTHING', 'DO sleep ( 1 )',
]]

# declarations of a DECLARE section besides `name type`: cursors carry the keyword FOR without being loops
DECLS = [_w(t) for t in ['c CURSOR FOR SELECT a FROM t', 'c2 CURSOR FOR SELECT 1', 'CURSOR c3 IS SELECT a FROM t FOR UPDATE', 'w int := 0']]


def _decls(mk):
    one = st.one_of(st.tuples(G.plain_name, st.sampled_from(G.TYPES)).map(lambda t: seq([t[0]], L('type', t[1]))),
                    st.tuples(G.plain_name, st.sampled_from(G.TYPES)).map(lambda t: seq([t[0]], L('type', t[1]))),
                    st.sampled_from(DECLS).map(lambda x: [list(l) for l in x]))
    return st.lists(one, min_size=1, max_size=3).map(lambda ds: seq(mk(), [seq(d, semi()) for d in ds]))


@functools.lru_cache(maxsize=None)
def simple():
    assign = st.tuples(G.plain_name, G.expr(1)).map(lambda t: seq([t[0]], L('assign', ':='), t[1]))
    ret = G.expr(0).map(lambda e: seq(kw('RETURN'), e))
    cheap = st.sampled_from(CHEAP).map(lambda x: [list(l) for l in x])
    return G.weighted((9, cheap), (1, G.select(0)), (1, G.update()), (1, G.delete()), (1, assign), (1, ret), (1, _case_select(False)), (1, G.create_table()))


@functools.lru_cache(maxsize=None)
def stmts(depth, exclude):
    # one block in eight starts with a nested DDL statement (CREATE [OR REPLACE] ... right after BEGIN / THEN / LOOP / DO)
    ddl = st.sampled_from([c for c in CHEAP if c[0][1].startswith(('CREATE', 'EXPLAIN', 'DROP'))]).map(lambda x: seq([list(l) for l in x], semi()))
    # ... and one in three (depth permitting) with a block construct, so that every construct directly follows every
    # block opener (ELSE IF .., THEN BEGIN .., LOOP CASE ..) often enough
    first = st.one_of(st.none(), st.none(), construct(depth, exclude)) if depth > 0 else st.none()
    return st.tuples(st.integers(0, 7), ddl, st.lists(stmt(depth, exclude), min_size=1, max_size=3), first).map(
        lambda t: (t[1] if t[0] == 0 else t[3] if t[3] is not None else []) + [l for x in t[2] for l in x])


@functools.lru_cache(maxsize=None)
def stmt(depth, exclude, only_constructs=False):
    """one statement of a block body including its terminating ';'"""
    simple_s = simple().map(lambda s: seq(s, semi()))
    if depth <= 0:
        return simple_s
    sub = stmts(depth - 1, exclude)
    c = G.cond(0)
    alts = [simple_s, simple_s, simple_s]
    alts.append(block(depth - 1, exclude).map(lambda b: seq(b, semi())))
    alts.append(st.tuples(c, sub, st.lists(st.tuples(c, sub), max_size=1), st.one_of(st.none(), sub)).map(
        lambda t: seq(kw('IF'), t[0], kw('THEN'), t[1], [seq(kw('ELSIF'), ec, kw('THEN'), es) for ec, es in t[2]],
                      seq(kw('ELSE'), t[3]) if t[3] else None, kw('END IF'), semi())))
    alts.append(st.tuples(c, sub).map(lambda t: seq(kw('WHILE'), t[0], kw('DO'), t[1], kw('END WHILE'), semi())))
    alts.append(sub.map(lambda b: seq(kw('LOOP'), b, kw('END LOOP'), semi())))
    if 'loop_end_loop' not in exclude:
        alts.append(st.tuples(G.plain_name, sub).map(
            lambda t: seq(kw('FOR', hz='loop_end_loop'), [t[0]], kw('IN'), L('range', '1..3'), kw('LOOP'), t[1], kw('END LOOP'), semi())))
        alts.append(st.tuples(c, sub).map(
            lambda t: seq(kw('WHILE', hz='loop_end_loop'), t[0], kw('LOOP'), t[1], kw('END LOOP'), semi())))
    if 'case_statement' not in exclude:
        alts.append(st.tuples(G.plain_name, st.lists(st.tuples(G.value_literal, sub), min_size=1, max_size=2), st.one_of(st.none(), sub)).map(
            lambda t: seq(kw('CASE', hz='case_statement'), [t[0]], [seq(kw('WHEN'), [v], kw('THEN'), b) for v, b in t[1]],
                          seq(kw('ELSE'), t[2]) if t[2] else None, kw('END'), kw('CASE'), semi())))
    if 'nested_case_expr' not in exclude:
        alts.append(_case_select(True).map(lambda s: seq([['mark', '', True, {'m': 'o', 'k': 'hz', 'hz': 'nested_case_expr'}],
                                                          ['mark', '', True, {'m': 'c', 'k': 'hz'}]], s, semi())))
    # Hypothesis favours the first alternatives (zero-extension, shrinking order): put the block constructs first and
    # rotate them per depth so that every construct is the favoured one somewhere
    constructs = alts[3:]
    k = depth % len(constructs)
    if only_constructs:
        return st.one_of(*(constructs[k:] + constructs[:k]))
    # half block constructs (each equally likely), half simple statements
    return G.weighted((1, st.one_of(*(constructs[k:] + constructs[:k]))), (1, simple_s))


def construct(depth, exclude):
    """one block construct (nested block, IF, WHILE, LOOP, FOR, CASE ...) including its terminating ';'"""
    return stmt(depth, exclude, True)


@functools.lru_cache(maxsize=None)
def block(depth, exclude, outermost=False):
    decl = _decls(lambda: kw('DECLARE'))
    # DECLARE inside the block (MySQL) or in front of its BEGIN (PL/pgSQL nested block)
    return st.tuples(st.one_of(st.none(), st.none(), decl), stmts(depth, exclude), st.one_of(st.none(), st.none(), G.plain_name), st.just(False) if outermost else st.booleans()).map(
        lambda t: seq(t[0] if t[3] else None, kw('BEGIN'), kw('ATOMIC') if outermost and t[0] is None and t[2] is None and len(t[1]) % 5 == 0 else None,
                      t[0] if not t[3] else None, t[1], kw('END'), [t[2]] if t[2] else None))


@functools.lru_cache(maxsize=None)
def header():
    params = st.lists(st.tuples(G.plain_name, st.sampled_from(G.TYPES)), max_size=2).map(
        lambda ps: seq(L('lp', '(', True), G.tight_first(comma_list([seq([n], L('type', t)) for n, t in ps])), G.RP()))
    orr = st.sampled_from(['CREATE', 'CREATE OR REPLACE'])
    fn = st.tuples(orr, G.plain_name, params, st.sampled_from(G.TYPES), st.sampled_from([None, 'AS', 'IS'])).map(
        lambda t: (t[0], seq(L('kw', t[0], False, lead=t[0]), kw('FUNCTION'), [t[1]], t[2], kw('RETURNS'), L('type', t[3]), kw(t[4]) if t[4] else None)))
    pr = st.tuples(orr, G.plain_name, params, st.sampled_from([None, 'AS', 'IS'])).map(
        lambda t: (t[0], seq(L('kw', t[0], False, lead=t[0]), kw('PROCEDURE'), [t[1]], t[2], kw(t[3]) if t[3] else None)))
    tr = st.tuples(orr, G.plain_name, st.sampled_from(['AFTER', 'BEFORE']), st.sampled_from(['UPDATE', 'INSERT', 'DELETE']), G.plain_name, st.booleans()).map(
        lambda t: (t[0], seq(L('kw', t[0], False, lead=t[0]), kw('TRIGGER'), [t[1]], kw(t[2]), kw(t[3]), kw('ON'), [t[4]],
                             seq(kw('FOR'), kw('EACH'), kw('ROW')) if t[5] else None)))
    return st.one_of(fn, fn, pr, pr, tr)


def create(depth=3, exclude=frozenset()):
    """-> lexemes (with marks) of one CREATE ... BEGIN ... END statement (without the final ';')"""
    exclude = frozenset(exclude)
    top_decl = st.none()
    if 'declare_section_before_begin' not in exclude:
        top_decl = st.one_of(st.none(), st.none(), _decls(lambda: kw('DECLARE', hz='declare_section_before_begin')))
    return st.tuples(header(), top_decl, block(depth, exclude, True)).map(
        lambda t: W('stmt', seq(t[0][1], t[1], t[2]), type=t[0][0], proc=True))


def hazards_of(lex):
    hz = set()
    for l in lex:
        h = l[3].get('hz')
        if h:
            hz.add(h)
    return sorted(hz)


@st.composite
def script(draw, exclude=frozenset(), depth=3, max_pre=3, max_post=3, comments=5, **lay):
    """-> laid-out lexemes: p plain statements, the CREATE statement, q plain statements, all ';'-terminated"""
    npre, npost = draw(st.integers(0, max_pre)), draw(st.integers(0, max_post))
    raw, pool = draw(G.predrawn_layout(comments))       # controls and layout first, the big structure last
    # plain statements around the CREATE; one script in three is wrapped in a transaction (BEGIN; ... COMMIT;): the
    # transaction BEGIN is a statement of its own and has no END
    txn = draw(st.sampled_from([None, None, 'BEGIN', 'BEGIN TRANSACTION', 'START TRANSACTION']))
    pre = [draw(G.small_statement()) for _ in range(npre)]
    post = [draw(G.small_statement()) for _ in range(npost)]
    if txn:
        pre = [W('stmt', _w(txn), type='UNKNOWN')] + pre
        post = post + [W('stmt', _w('COMMIT'), type='COMMIT')]
    cr = draw(create(depth, exclude))
    lex = []
    for s in pre + [cr] + post:
        lex.extend(s)
        lex.append(list(G.SEMI))
    return draw(G.layout(lex, comments=comments, raw=raw, pool=pool, **lay))


def rendered_script():
    return script(depth=2, max_pre=1, max_post=1).map(lambda laid: G.assemble(laid)[0])
