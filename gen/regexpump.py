"""Pump-string candidates for C16: per rule of the *current* SQL_REGEX an alphabet of literals and class
representatives extracted with re._parser, pumps enumerated over it."""
import itertools
import re

try:
    import re._parser as sp
except ImportError:          # Python < 3.11
    import sre_parse as sp

CAT = {'CATEGORY_SPACE': ' ', 'CATEGORY_WORD': 'a', 'CATEGORY_DIGIT': '1', 'CATEGORY_NOT_SPACE': 'a',
       'CATEGORY_NOT_WORD': '-', 'CATEGORY_NOT_DIGIT': 'x'}


def alphabet(rx):
    out = []

    def add(c):
        if c not in out:
            out.append(c)

    def walk(p):
        for op, av in p:
            op = str(op)
            if op == 'LITERAL':
                add(chr(av))
            elif op == 'NOT_LITERAL':
                add('a')
                add(chr(av))
            elif op == 'IN':
                for o2, a2 in av:
                    o2 = str(o2)
                    if o2 == 'LITERAL':
                        add(chr(a2))
                    elif o2 == 'RANGE':
                        add(chr(a2[0]))
                    elif o2 == 'CATEGORY':
                        add(CAT.get(str(a2), 'a'))
                    elif o2 == 'NEGATE':
                        add('a')
            elif op in ('MAX_REPEAT', 'MIN_REPEAT', 'POSSESSIVE_REPEAT'):
                walk(av[2])
            elif op == 'SUBPATTERN':
                walk(av[3])
            elif op == 'BRANCH':
                for b in av[1]:
                    walk(b)
            elif op in ('ASSERT', 'ASSERT_NOT'):
                walk(av[1])
            elif op == 'ATOMIC_GROUP':
                walk(av)
            elif op == 'ANY':
                add('a')
    walk(sp.parse(rx, re.IGNORECASE | re.UNICODE))
    return out


def witness(rx):
    """one string the rule matches, built from the parsed pattern (literals, first class member, first alternative,
    every optional / repeated part taken once)"""
    def one(p):
        out = []
        for op, av in p:
            op = str(op)
            if op == 'LITERAL':
                out.append(chr(av))
            elif op == 'NOT_LITERAL':
                out.append('a' if chr(av) != 'a' else 'b')
            elif op == 'IN':
                neg = any(str(o2) == 'NEGATE' for o2, _ in av)
                if neg:
                    out.append('a')
                else:
                    for o2, a2 in av:
                        o2 = str(o2)
                        if o2 == 'LITERAL':
                            out.append(chr(a2))
                            break
                        if o2 == 'RANGE':
                            out.append(chr(a2[0]))
                            break
                        if o2 == 'CATEGORY':
                            out.append(CAT.get(str(a2), 'a'))
                            break
            elif op in ('MAX_REPEAT', 'MIN_REPEAT', 'POSSESSIVE_REPEAT'):
                out.append(one(av[2]))
            elif op == 'SUBPATTERN':
                out.append(one(av[3]))
            elif op == 'BRANCH':
                out.append(one(av[1][0]))
            elif op == 'ANY':
                out.append('a')
            elif op == 'GROUPREF':
                out.append('$$')
        return ''.join(out)
    try:
        return one(sp.parse(rx, re.IGNORECASE | re.UNICODE))
    except Exception:
        return ''


def literal_prefixes(rx):
    """prefixes of a witness string cut at word boundaries: strings that carry a match attempt past the rule's fixed
    heads into its later loops, e.g. 'NOT', 'NOT ' for NOT\\s+NULL; 'AT', 'AT ', 'AT TIME', 'AT TIME ' for the TZ cast"""
    w = witness(rx)
    out = []
    for i in range(1, len(w) + 1):
        if i == len(w) or w[i].isspace() != w[i - 1].isspace():
            p = w[:i]
            if p not in out:
                out.append(p)
    return out[:8]


def candidates(rules, tier='quick'):
    """yields dicts {rule, prefix, pump, reps, suffix}; rule = index into the table"""
    maxsym = 7 if tier == 'quick' else 9
    maxlen = 3 if tier == 'quick' else 4
    for ri, (rx, _) in enumerate(rules):
        al = alphabet(rx)[:maxsym]
        if '\n' not in al:
            al = al + ['\n']
        non = next(c for c in ['\x01', '~', 'é'] if c not in al)
        pumps = [''.join(p) for k in range(1, maxlen + 1) for p in itertools.product(al, repeat=k)]
        prefixes = [''] + al[:4] + [p for p in literal_prefixes(rx) if p not in al[:4]]
        for pump in pumps:
            for pre in prefixes:
                for suf in ('', non):
                    yield {'rule': ri, 'prefix': pre, 'pump': pump, 'reps': max(2, 60 // len(pump)), 'suffix': suf}
            if len(pump) <= 2:
                big = 2000 if tier == 'quick' else 20000
                for suf in ('', non):
                    yield {'rule': ri, 'prefix': '', 'pump': pump, 'reps': big // len(pump), 'suffix': suf}
                yield {'rule': ri, 'prefix': al[0], 'pump': pump, 'reps': big // len(pump), 'suffix': non}


# ---- directed candidates: per loop of a rule, the prefix that reaches it and pumps over the minterms of its body --------------------

import unicodedata


def _universe():
    """characters the minterm computation distinguishes: Latin blocks completely, plus a few members of every Unicode
    general category beyond them (non-ASCII digits, letters of both cases, spaces, marks, symbols, astral characters)"""
    first = 'a1 _' + ''.join(chr(i) for i in range(33, 127))
    out = list(dict.fromkeys(first)) + [chr(i) for i in range(0x250) if chr(i) not in first]
    seen = {}
    for i in list(range(0x250, 0x3100)) + list(range(0xFE00, 0x10000)) + list(range(0x1D7C0, 0x1D800)) + [0x1F600]:
        if 0xD800 <= i <= 0xDFFF:
            continue
        c = chr(i)
        cat = unicodedata.category(c)
        if cat in ('Cn', 'Co'):
            continue
        k = (cat, i >= 0xFE00)
        if seen.get(k, 0) < 3:
            seen[k] = seen.get(k, 0) + 1
            out.append(c)
    return out


_UNIVERSE = None
_CATRX = {'CATEGORY_SPACE': r'\s', 'CATEGORY_WORD': r'\w', 'CATEGORY_DIGIT': r'\d', 'CATEGORY_NOT_SPACE': r'\S',
          'CATEGORY_NOT_WORD': r'\W', 'CATEGORY_NOT_DIGIT': r'\D'}
_catcache = {}


def _in_cat(ch, cat):
    k = (ch, cat)
    if k not in _catcache:
        _catcache[k] = re.match(_CATRX[cat], ch, re.UNICODE) is not None
    return _catcache[k]


def _variants(ch):
    v = {ch}
    for x in (ch.lower(), ch.upper()):
        if len(x) == 1:
            v.add(x)
    return v


def member(ch, item):
    """does the one-character pattern element `item` (op, av) accept ch under IGNORECASE|UNICODE"""
    op, av = str(item[0]), item[1]
    if op == 'LITERAL':
        return any(ord(x) == av for x in _variants(ch)) or chr(av).lower() == ch.lower()
    if op == 'NOT_LITERAL':
        return not member(ch, ('LITERAL', av))
    if op == 'ANY':
        return ch != '\n'
    if op == 'IN':
        neg = False
        hit = False
        for o2, a2 in av:
            o2 = str(o2)
            if o2 == 'NEGATE':
                neg = True
            elif o2 == 'LITERAL':
                hit = hit or member(ch, ('LITERAL', a2))
            elif o2 == 'RANGE':
                hit = hit or any(a2[0] <= ord(x) <= a2[1] for x in _variants(ch))
            elif o2 == 'CATEGORY':
                hit = hit or _in_cat(ch, str(a2))
        return hit != neg
    return False


def _sets_of(p, out):
    for item in p:
        op, av = str(item[0]), item[1]
        if op in ('LITERAL', 'NOT_LITERAL', 'ANY', 'IN'):
            out.append((item[0], av))
        elif op in ('MAX_REPEAT', 'MIN_REPEAT', 'POSSESSIVE_REPEAT'):
            _sets_of(av[2], out)
        elif op == 'SUBPATTERN':
            _sets_of(av[3], out)
        elif op == 'BRANCH':
            for b in av[1]:
                _sets_of(b, out)
        elif op in ('ASSERT', 'ASSERT_NOT'):
            _sets_of(av[1], out)
        elif op == 'ATOMIC_GROUP':
            _sets_of(av, out)
    return out


def minterms(body_sets, all_sets, limit=10):
    """one representative per class of characters that the rule's one-character elements cannot tell apart, restricted
    to characters some element of the loop body accepts; ASCII representatives first"""
    global _UNIVERSE
    if _UNIVERSE is None:
        _UNIVERSE = _universe()
    reps = {}
    for ch in _UNIVERSE:
        if not any(member(ch, s) for s in body_sets):
            continue
        sig = tuple(member(ch, s) for s in all_sets)
        if sig not in reps:
            reps[sig] = ch
    # classes accepted by several body elements first: they are where two ways of matching the same text can arise
    order = sorted(reps.items(), key=lambda kv: -sum(1 for s in body_sets if member(kv[1], s)))
    return [ch for _, ch in order][:limit]


def _witness_seq(p):
    """witness of a parsed sequence (see witness)"""
    out = []
    for op, av in p:
        op = str(op)
        if op == 'LITERAL':
            out.append(chr(av))
        elif op == 'NOT_LITERAL':
            out.append('a' if chr(av) != 'a' else 'b')
        elif op == 'IN':
            c = next((ch for ch in 'a1_ $-' + ''.join(chr(i) for i in range(32, 0x250)) if member(ch, ('IN', av))), 'a')
            out.append(c)
        elif op in ('MAX_REPEAT', 'MIN_REPEAT', 'POSSESSIVE_REPEAT'):
            out.append(_witness_seq(av[2]) * max(1, min(av[0], 3)))
        elif op == 'SUBPATTERN':
            out.append(_witness_seq(av[3]))
        elif op == 'BRANCH':
            out.append(_witness_seq(av[1][0]))
        elif op == 'ANY':
            out.append('a')
        elif op == 'GROUPREF':
            out.append('$$')
    return ''.join(out)


def _alternatives(p):
    """the alternatives of a parsed loop body (looking through a single enclosing group)"""
    items = list(p)
    if len(items) == 1:
        op, av = str(items[0][0]), items[0][1]
        if op == 'SUBPATTERN':
            return _alternatives(av[3])
        if op == 'BRANCH':
            return [list(b) for b in av[1]]
    return [items]


def _witness_min(p):
    """like _witness_seq, with every optional part left out"""
    out = []
    for op, av in p:
        ops = str(op)
        if ops in ('MAX_REPEAT', 'MIN_REPEAT', 'POSSESSIVE_REPEAT'):
            out.append(_witness_min(av[2]) * min(av[0], 3))
        elif ops == 'SUBPATTERN':
            out.append(_witness_min(av[3]))
        elif ops == 'BRANCH':
            out.append(_witness_min(av[1][0]))
        else:
            out.append(_witness_seq([(op, av)]))
    return ''.join(out)


def body_witnesses(body):
    """strings one iteration of the loop can match: per alternative of the body the witness with and without its
    optional parts (for (?:\\s|/\\*[\\s\\S]*?\\*/)+ these are ' ', '/*a*/', '/**/')"""
    out = []
    for alt in _alternatives(body):
        for w in (_witness_seq(alt), _witness_min(alt)):
            if w and w not in out:
                out.append(w)
    return out


def loop_sites(rx):
    """-> [(prefix, body)] for every repetition of the rule that may run at least twice: prefix is a string that
    carries a match attempt to the loop, body the parsed loop body"""
    sites = []

    def walk(p, prefix):
        cur = prefix
        for op, av in p:
            ops = str(op)
            if ops in ('MAX_REPEAT', 'MIN_REPEAT', 'POSSESSIVE_REPEAT'):
                lo, hi, body = av
                if hi is sp.MAXREPEAT or int(hi) >= 2:
                    sites.append((cur, body))
                walk(body, cur)
            elif ops == 'SUBPATTERN':
                walk(av[3], cur)
            elif ops == 'BRANCH':
                for b in av[1]:
                    walk(b, cur)
            elif ops == 'ATOMIC_GROUP':
                walk(av, cur)
            cur += _witness_seq([(op, av)])
    try:
        walk(sp.parse(rx, re.IGNORECASE | re.UNICODE), '')
    except Exception:
        return []
    return sites


def directed(rules, tier='quick'):
    """yields {rule, prefix, pump, reps, suffix}: for each loop site pumps of length <= 3 (quick: alphabets above 6
    symbols <= 2) over the minterm representatives of the loop body, behind the prefix that reaches the loop"""
    maxlen = 3 if tier == 'quick' else 4
    for ri, (rx, _) in enumerate(rules):
        try:
            parsed = sp.parse(rx, re.IGNORECASE | re.UNICODE)
        except Exception:
            continue
        all_sets = _sets_of(parsed, [])
        seen = set()
        for prefix, body in loop_sites(rx):
            al = minterms(_sets_of(body, []), all_sets, limit=8 if tier == 'quick' else 12)
            if not al:
                continue
            non = next(c for c in ['\x01', '~', 'é', '\x02'] if c not in al)
            # whole iterations of the loop as pumps (any length): nested repetitions are ambiguous about where one
            # iteration ends, which only shows when the pump is a complete iteration
            for pump in body_witnesses(body):
                if len(pump) > 1:
                    for suf in ('', non):
                        key = (prefix, pump, suf)
                        if key not in seen:
                            seen.add(key)
                            yield {'rule': ri, 'prefix': prefix, 'pump': pump, 'reps': max(30, 60 // len(pump)), 'suffix': suf}
            for k in range(1, maxlen + 1 + (len(al) <= 4)):
                syms = al if k <= 2 or len(al) <= 4 else al[:6 if tier == 'quick' else 8]
                for p in itertools.product(syms, repeat=k):
                    pump = ''.join(p)
                    for suf in ('', non):
                        key = (prefix, pump, suf)
                        if key in seen:
                            continue
                        seen.add(key)
                        yield {'rule': ri, 'prefix': prefix, 'pump': pump, 'reps': max(2, 60 // len(pump)), 'suffix': suf}
                    if k == 1:
                        yield {'rule': ri, 'prefix': prefix, 'pump': pump, 'reps': 3000 if tier == 'quick' else 30000, 'suffix': non}
