"""Pump-string candidates for C16: per rule of the *current* SQL_REGEX an alphabet of literals and class
representatives extracted with re._parser, pumps enumerated over it."""
import itertools
import re

try:
    import re._parser as sp
except ImportError:          # Python < 3.11
    import sre_parse as sp

CAT = {'CATEGORY_SPACE': ' ', 'CATEGORY_WORD': 'a', 'CATEGORY_DIGIT': '1', 'CATEGORY_NOT_SPACE': 'a',
       'CATEGORY_NOT_WORD': '-', 'CATEGORY_NOT_DIGIT': 'x'}


def alphabet(rx):
    out = []

    def add(c):
        if c not in out:
            out.append(c)

    def walk(p):
        for op, av in p:
            op = str(op)
            if op == 'LITERAL':
                add(chr(av))
            elif op == 'NOT_LITERAL':
                add('a')
                add(chr(av))
            elif op == 'IN':
                for o2, a2 in av:
                    o2 = str(o2)
                    if o2 == 'LITERAL':
                        add(chr(a2))
                    elif o2 == 'RANGE':
                        add(chr(a2[0]))
                    elif o2 == 'CATEGORY':
                        add(CAT.get(str(a2), 'a'))
                    elif o2 == 'NEGATE':
                        add('a')
            elif op in ('MAX_REPEAT', 'MIN_REPEAT', 'POSSESSIVE_REPEAT'):
                walk(av[2])
            elif op == 'SUBPATTERN':
                walk(av[3])
            elif op == 'BRANCH':
                for b in av[1]:
                    walk(b)
            elif op in ('ASSERT', 'ASSERT_NOT'):
                walk(av[1])
            elif op == 'ATOMIC_GROUP':
                walk(av)
            elif op == 'ANY':
                add('a')
    walk(sp.parse(rx, re.IGNORECASE | re.UNICODE))
    return out


def witness(rx):
    """one string the rule matches, built from the parsed pattern (literals, first class member, first alternative,
    every optional / repeated part taken once)"""
    def one(p):
        out = []
        for op, av in p:
            op = str(op)
            if op == 'LITERAL':
                out.append(chr(av))
            elif op == 'NOT_LITERAL':
                out.append('a' if chr(av) != 'a' else 'b')
            elif op == 'IN':
                neg = any(str(o2) == 'NEGATE' for o2, _ in av)
                if neg:
                    out.append('a')
                else:
                    for o2, a2 in av:
                        o2 = str(o2)
                        if o2 == 'LITERAL':
                            out.append(chr(a2))
                            break
                        if o2 == 'RANGE':
                            out.append(chr(a2[0]))
                            break
                        if o2 == 'CATEGORY':
                            out.append(CAT.get(str(a2), 'a'))
                            break
            elif op in ('MAX_REPEAT', 'MIN_REPEAT', 'POSSESSIVE_REPEAT'):
                out.append(one(av[2]))
            elif op == 'SUBPATTERN':
                out.append(one(av[3]))
            elif op == 'BRANCH':
                out.append(one(av[1][0]))
            elif op == 'ANY':
                out.append('a')
            elif op == 'GROUPREF':
                out.append('$$')
        return ''.join(out)
    try:
        return one(sp.parse(rx, re.IGNORECASE | re.UNICODE))
    except Exception:
        return ''


def literal_prefixes(rx):
    """prefixes of a witness string cut at word boundaries: strings that carry a match attempt past the rule's fixed
    heads into its later loops, e.g. 'NOT', 'NOT ' for NOT\\s+NULL; 'AT', 'AT ', 'AT TIME', 'AT TIME ' for the TZ cast"""
    w = witness(rx)
    out = []
    for i in range(1, len(w) + 1):
        if i == len(w) or w[i].isspace() != w[i - 1].isspace():
            p = w[:i]
            if p not in out:
                out.append(p)
    return out[:8]


def candidates(rules, tier='quick'):
    """yields dicts {rule, prefix, pump, reps, suffix}; rule = index into the table"""
    maxsym = 7 if tier == 'quick' else 9
    maxlen = 3 if tier == 'quick' else 4
    for ri, (rx, _) in enumerate(rules):
        al = alphabet(rx)[:maxsym]
        if '\n' not in al:
            al = al + ['\n']
        non = next(c for c in ['\x01', '~', 'é'] if c not in al)
        pumps = [''.join(p) for k in range(1, maxlen + 1) for p in itertools.product(al, repeat=k)]
        prefixes = [''] + al[:4] + [p for p in literal_prefixes(rx) if p not in al[:4]]
        for pump in pumps:
            for pre in prefixes:
                for suf in ('', non):
                    yield {'rule': ri, 'prefix': pre, 'pump': pump, 'reps': max(2, 60 // len(pump)), 'suffix': suf}
            if len(pump) <= 2:
                big = 2000 if tier == 'quick' else 20000
                for suf in ('', non):
                    yield {'rule': ri, 'prefix': '', 'pump': pump, 'reps': big // len(pump), 'suffix': suf}
                yield {'rule': ri, 'prefix': al[0], 'pump': pump, 'reps': big // len(pump), 'suffix': non}
