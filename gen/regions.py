"""Opaque regions (C05, C14): adversarial bodies that lack the region's own terminator, by construction."""
from hypothesis import strategies as st

from gen import chars

TAGS = ['', '', 'a', '_x1', 'Tag', 'É', 'body']


def strip_term(body, term):
    """shortest edit that makes (body + term).find(term) == len(body): drop characters of early occurrences"""
    while (body + term).find(term) != len(body):
        i = (body + term).find(term)
        body = body[:i] + body[i + 1:]
    return body


def sq_body(b):
    return "'" + b.replace('\\', '').replace("'", "''") + "'"


def dq_body(b):
    b = b.replace('\\', '').replace('"', '""')
    return '"' + (b or 'q') + '"'


def bt_body(b):
    b = b.replace('`', '``')
    return '`' + (b or 'q') + '`'


def br_body(b):
    """[bracket-quoted name] (T-SQL, SQLite): any non-empty body without brackets"""
    b = b.replace('[', '').replace(']', '')
    return '[' + (b or 'q') + ']'


def dollar_body(b, tag):
    term = '$' + tag + '$'
    return term + strip_term(b, term) + term


def block_comment(b):
    return '/*' + strip_term(b, '*/') + '*/'


def line_comment(b, eol):
    b = b.replace('\n', ' ').replace('\r', ' ')
    return '--' + b + eol


adversarial = st.one_of(chars.body(10), chars.body(10), st.sampled_from(
    [';', "';'", ' ; ', 'GO', '\nGO\n', 'END', 'END;', 'BEGIN', '--', '/*', '-- ;\n', '; select 1', 'a;b;c', "x' ; select '", '$$', '$a$', '*/ ;', '( ; )', ') ;', '(', '"', '`', "''"]))

PAREN_POOL = ['a', 'b', '1', "'s;'", ';', ';', ',', '=', 'x.y', '"q;"', 'select', 'from', 'where', 'and', 'null', '*', '+', 'f', 'when', '/*;*/', '$$;$$']


def paren_body(with_end=False):
    pool = PAREN_POOL + (['end', 'END'] if with_end else [])
    return st.lists(st.sampled_from(pool), min_size=1, max_size=6).map(' '.join)
