"""G2 token soup: lists of lexeme strings joined by '', ' ' or '\n'; and the structured variant
(random balanced forests over the block/bracket vocabulary, then perturbed)."""
from hypothesis import strategies as st

POOL = [
    # keywords the grouping passes look at
    'select', 'SELECT', 'from', 'where', 'WHERE', 'group by', 'order by', 'ORDER  BY', 'having', 'limit', 'union', 'union all',
    'except', 'returning', 'into', 'insert', 'update', 'delete', 'set', 'values', 'VALUES', 'create', 'create or replace',
    'table', 'TABLE', 'view', 'index', 'drop', 'alter', 'with', 'recursive', 'as', 'AS', 'on', 'using', 'join', 'left join',
    'LEFT OUTER JOIN', 'cross join', 'and', 'or', 'not', 'in', 'is', 'null', 'NULL', 'not null', 'like', 'not like', 'between',
    'exists', 'distinct', 'asc', 'desc', 'desc nulls last', 'nulls first', 'over', 'OVER', 'partition', 'by',
    'case', 'CASE', 'when', 'then', 'else', 'end', 'END', 'if', 'IF', 'end if', 'END IF', 'for', 'foreach', 'FOR', 'end loop',
    'END LOOP', 'loop', 'while', 'end while', 'begin', 'BEGIN', 'declare', 'function', 'procedure', 'trigger', 'returns', 'return',
    'go', 'GO', 'GO 2', 'current_date', 'current_timestamp', 'CURRENT_TIME', 'date', 'timestamp', 'TIMESTAMP', 'interval', 'day', 'hour', 'year',
    'role', 'true', 'false', 'int', 'varchar', 'text', 'double precision', 'primary key', "at time zone 'utc'",
    # names, qualified names, quoted names
    'a', 'b', 'c', 'x', 'y', 'tbl', 't1', 'foo', 'Bar', 'col_1', 'é', 'Àb', 'a.b', 'a.b.c', 't.*', 'x.y', '"q"', '"q w"', '`bt`', '[sq]', '"a"."b"',
    '@v', '#tmp', '##g', 'f', 'count', 'sum', 'my_fn', 'f(', 'count(',
    # literals
    '1', '0', '42', '1.5', '.5', '1.', '1e5', '0x1F', '-1', "'s'", "''", "'a''b'", "'x;y'", "'a\nb'", '$$b$$', '$t$ ; $t$',
    # comments, hints
    '/*c*/', '/* ; */', '/*+ h */', '/*!40101 set x=1 */', '# \n', 'GO[', 'go$$', '--c\n', '-- x;\n', '--+ h\n', '# c\n',
    # punctuation and operators
    '(', ')', '(', ')', '[', ']', ',', ',', ';', ';', '.', '::', ':=', '*', '+', '-', '/', '%', '||', '=', '==', '<>', '!=', '<', '>', '<=', '>=',
    '->', '->>', '#>', '@>', '?', '%s', ':p', '$1', '%(n)s', '\\g',
]

GAPS = ['', ' ', ' ', ' ', '\n', '  ', '\t', ' \n ']

token = st.sampled_from(POOL)


def soup(max_tokens=25):
    """-> text"""
    return st.lists(st.tuples(token, st.sampled_from(GAPS)), max_size=max_tokens).map(
        lambda items: ''.join(t + g for t, g in items))


def spaced_soup(max_tokens=25):
    return st.lists(token, max_size=max_tokens).map(' '.join)


# ---- structured: balanced forests over the C09 vocabulary, then perturbed ------------------------------------

PAIRS = [('(', ')'), ('(', ')'), ('[', ']'), ('case', 'end'), ('CASE', 'END'), ('if', 'end if'), ('IF', 'END IF'),
         ('for', 'end loop'), ('foreach', 'end loop'), ('FOR', 'END LOOP'), ('begin', 'end'), ('BEGIN', 'END')]
FILLER = ['a', 'b', 'x.y', '1', "'s'", ',', ',', '=', '+', '*', 'when', 'then', 'else', 'loop', 'where', 'select', 'from', 'and',
          'as', ':=', 'f', 'over', 'values', '/*c*/', '--c\n', 'order by', 'in', 'i', '..', 'while', 'end while', ';', 'not', 'null']


JOINERS = [',', '::', 'as', ':=', '=', '+', '.', 'and', '||', '<>']


@st.composite
def forest(draw, depth=3, width=4):
    out = []
    for _ in range(draw(st.integers(0, width))):
        k = draw(st.integers(0, 9))
        if k < 4 or depth <= 0:
            out.append(draw(st.sampled_from(FILLER)))
        else:
            o, c = draw(st.sampled_from(PAIRS))
            out.append(o)
            out.extend(draw(forest(depth - 1, width)))
            tail = draw(st.integers(0, 5))
            if tail == 0:
                # one or two complete joins, then a joiner left dangling right before the closer / right after the opener
                j = draw(st.sampled_from(JOINERS))
                out.extend(['a', j, 'b', j] if draw(st.booleans()) else ['a', '::', 'int', ',', 'b', j])
            elif tail == 1:
                out.insert(len(out) - 0, draw(st.sampled_from(JOINERS)))
            out.append(c)
    return out


@st.composite
def structured(draw, max_perturb=3):
    """-> list of token strings: a balanced forest with up to max_perturb delete/duplicate/transpose edits"""
    toks = draw(forest())
    for _ in range(draw(st.integers(0, max_perturb))):
        if not toks:
            break
        i = draw(st.integers(0, len(toks) - 1))
        op = draw(st.integers(0, 3))
        if op == 0:
            del toks[i]
        elif op == 1:
            toks.insert(i, toks[i])
        elif op == 2 and i + 1 < len(toks):
            toks[i], toks[i + 1] = toks[i + 1], toks[i]
        else:
            toks.insert(i, draw(st.sampled_from([x for p in PAIRS for x in p])))
    if draw(st.integers(0, 3)) == 0:
        # a comment as the very last token of the statement (it is not wrapped into a Comment group then)
        toks.append(draw(st.sampled_from(['-- done', '/* done */', '--', '/*+ h */', '# c'])))
    return toks


def structured_text():
    return st.tuples(structured(), st.sampled_from([' ', ' ', '\n', '  '])).map(lambda t: t[1].join(t[0]))


def comment_led(max_tokens=10):
    """a statement that starts with a comment directly followed by arbitrary tokens (joiners such as AS, ::, :=, operators
    first): shapes in which grouping makes the leading comment the first child of a nested group"""
    cm = st.sampled_from(['/* c */', '/*c*/', '-- remark\n', '--x\n', '/* a */ /* b */', '/*+ hint */', '# c\n'])
    first = st.sampled_from(['as', 'AS', '::', ':=', '.', '=', '+', ',', 'x', 'a.b', '(', 'and', 'over', 'in', 'like', 'desc', '[', 'case', 'end', "at time zone 'utc'"])
    return st.tuples(st.sampled_from(['', '', 'select 1; ', ' ', '\n']), cm, st.sampled_from(['', ' ', '\n']), first, st.sampled_from(['', ' ']), soup(max_tokens)).map(''.join)


def _all_dictionary_words():
    from sqlparse import keywords as K
    words = set()
    for name in dir(K):
        if name.startswith('KEYWORDS'):
            words |= set(getattr(K, name))
    return sorted(w for w in words if w.replace('_', '').isalnum())


_DICT_WORDS = None


@st.composite
def dictionary_soup(draw):
    """every word of the keyword dictionaries in operand / operator / call / qualified positions: a grouping pass that
    starts to treat some keyword specially (re-types it, joins around it) shows up here whichever word it is"""
    global _DICT_WORDS
    if _DICT_WORDS is None:
        _DICT_WORDS = _all_dictionary_words()
    w = draw(st.sampled_from(_DICT_WORDS))
    w = draw(st.sampled_from([w, w.lower(), w.capitalize()]))
    a = draw(st.sampled_from(['a', '10', 'x.y', "'s'", '(b + 1)', 'f(1)', '?']))
    b = draw(st.sampled_from(['b', '3', 't.c', "'t'", '(c)', 'g(2)', ':p']))
    shape = draw(st.sampled_from(['select {a} {w} {b}', 'select x from t where ({a} {w} {b}) = 0', 'update t set n = {a} {w} {b} where id = 1',
                                  'select {w} {a}, {b}', 'select {a} {w}, {b}', '{w} ({a}, {b})', 'select {a}.{w}, {w}.{b}', 'select {a} as {w}, {b} {w}',
                                  '{w} {w} {a}; {w}', 'select {a} from t {w} {b} order by 1', 'case {w} when {a} then {b} end', '{a} {w} {b} {w} {a}']))
    return shape.format(a=a, b=b, w=w)


DICT_SHAPES = ['select {a} {w} {b}', 'select x from t where ({a} {w} {b}) = 0', 'update t set n = {a} {w} {b} where id = 1',
               'select {w} {a}, {b}', 'select {a} {w}, {b}', '{w} ({a}, {b})', 'select {a}.{w}, {w}.{b}', 'select {a} as {w}, {b} {w}',
               '{w} {w} {a}; {w}', 'select {a} from t {w} {b} order by 1', 'case {w} when {a} then {b} end', '{a} {w} {b} {w} {a}']


def dictionary_enumeration():
    """every dictionary word in every shape (finite: ~800 words x 12 shapes), operands fixed per shape index"""
    global _DICT_WORDS
    if _DICT_WORDS is None:
        _DICT_WORDS = _all_dictionary_words()
    ops = [('a', 'b'), ('10', '3'), ('x.y', 't.c'), ("'s'", "'t'"), ('(b + 1)', '(c)'), ('f(1)', 'g(2)')]
    for wi, w in enumerate(_DICT_WORDS):
        for si, shape in enumerate(DICT_SHAPES):
            a, b = ops[(wi + si) % len(ops)]
            yield shape.format(a=a, b=b, w=w if (wi + si) % 3 else w.lower())
