"""Mixed text sources for the input-quantified properties (C01-C04, C07, C09)."""
import os

from hypothesis import strategies as st

from gen import chars, soup, grammar

HERE = os.path.dirname(os.path.dirname(os.path.abspath(__file__)))
SEEDDIR = os.path.join(HERE, 'replays', 'seeds')


def corpus():
    out = []
    if os.path.isdir(SEEDDIR):
        for fn in sorted(os.listdir(SEEDDIR)):
            if fn.endswith('.sql'):
                with open(os.path.join(SEEDDIR, fn), encoding='utf-8') as f:
                    out.append(f.read())
    return out or ['select 1']


_CORPUS = None


@st.composite
def corpus_mutation(draw):
    """G6: a committed seed script with up to 4 lexeme-level edits (split on whitespace boundaries, keeps whitespace)"""
    global _CORPUS
    if _CORPUS is None:
        _CORPUS = corpus()
    import re
    text = draw(st.sampled_from(_CORPUS))
    parts = re.findall(r'\s+|\w+|[^\w\s]', text)
    if len(parts) > 160:
        a = draw(st.integers(0, len(parts) - 160))
        parts = parts[a:a + 160]
    for _ in range(draw(st.integers(0, 4))):
        if not parts:
            break
        i = draw(st.integers(0, len(parts) - 1))
        op = draw(st.integers(0, 3))
        if op == 0:
            del parts[i]
        elif op == 1:
            parts.insert(i, parts[i])
        elif op == 2:
            parts[i] = draw(soup.token)
        else:
            j = draw(st.integers(0, len(parts) - 1))
            parts[i], parts[j] = parts[j], parts[i]
    return ''.join(parts)


@st.composite
def damaged_script(draw, max_statements=3):
    """rendered grammar script with a few lexemes deleted / duplicated / replaced (nearly valid SQL)"""
    laid = draw(grammar.script(1, max_statements, comments=10))
    text, clean, spans, marks = grammar.assemble(laid)
    k = draw(st.integers(0, 3))
    # a statement cut off in the middle of an expression: a dangling operator, sign, sigil or opener at the very end
    cut = draw(st.sampled_from(['', '', '', ' -', ' +', ' = -', ', @', ' where a = -', ' and', ' (', ' , ', ' ::', ' as', ' *', ' between 1 and', ' in (', ' ||', ' not']))
    if cut:
        text = text.rstrip().rstrip(';') + cut
    if not clean or k == 0:
        return text
    edits = sorted({draw(st.integers(0, len(clean) - 1)) for _ in range(k)}, reverse=True)
    for i in edits:
        s, e = spans[i]
        op = draw(st.integers(0, 2))
        if op == 0:
            text = text[:s] + text[e:]
        elif op == 1:
            text = text[:e] + ' ' + text[s:e] + text[e:]
        else:
            text = text[:s] + draw(soup.token) + text[e:]
    return text


@st.composite
def batch_script(draw):
    """T-SQL style batch script: statements separated by ';' and/or GO lines (any case, 'GO n'), some of them damaged so
    that parentheses / blocks stay open across a separator"""
    k = draw(st.integers(2, 6))
    parts = []
    for i in range(k):
        kind = draw(st.integers(0, 9))
        if kind < 5:
            laid = draw(grammar.layout(draw(grammar.small_statement()), comments=0))
            text, clean, spans, marks = grammar.assemble(laid)
            if draw(st.integers(0, 3)) == 0 and clean:
                j = draw(st.integers(0, len(clean) - 1))
                a, b = spans[j]
                text = text[:a] + text[b:]
        elif kind < 7:
            text = draw(soup.soup(6))
        else:
            text = draw(st.sampled_from(['select (1', 'select 1)', 'CREATE PROCEDURE p AS DECLARE @x INT; SELECT @x', 'CREATE PROCEDURE q AS BEGIN IF @a = 1 SELECT 1; END',
                                         'begin', 'declare @v int', 'if x begin select 1 end', 'select case when a then 1', 'create function f() returns int begin return 1',
                                         'insert into t values (1, (2', 'select 1', 'update t set a = 1', 'exec p 1, 2', 'use db', '[a(b]; select 2', '$$ ; $$ x', ':p; x', '?; y']))
        parts.append(text)
        parts.append(draw(st.sampled_from([';', ';', '; ', ';\n', '; # \n', ' GO', '\nGO\n', ';\nGO\n', ' GO ', '\ngo\n', ';\nGO 2\n', '\n', ' ; GO\n', '\nGo\n'])))
    return ''.join(parts)


def any_text(tier='quick', weights=(3, 2, 2, 3, 2, 2, 1, 2, 1, 2)):
    from gen import proc
    quick = tier == 'quick'
    srcs = [chars.text(quick), soup.soup(), soup.structured_text(), grammar.rendered_script(3), damaged_script(),
            proc.rendered_script(), corpus_mutation(), batch_script(), soup.comment_led(), soup.dictionary_soup()]
    base = grammar.weighted(*[(w, s) for s, w in zip(srcs, weights)])
    # one text in sixteen starts with a character that input layers like to treat specially (byte-order mark, zero-width
    # space, NUL, no-break space, line/paragraph separators, control characters)
    lead = st.sampled_from(['\ufeff', '\ufeff\ufeff', '\u200b', '\x00', '\xa0', '\u2028', '\u3000', '\x1f', '\ufffe', '\x1a'])
    return st.tuples(st.integers(0, 15), lead, base).map(lambda t: t[1] + t[2] if t[0] == 0 else t[2])
