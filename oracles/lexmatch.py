"""lexmatch: given the words the generator wrote and an output string, scan  ws* W1 ws* W2 ...  linearly.
Purely textual (no lexer call).  Reports the first word that is missing/altered/extra, the gaps, and pairs that
are glued although the two neighbours would fuse."""
import re

from gen.grammar import safe_pair

_EOL = re.compile(r'\r\n|\r|\n')


def norm_comment(text):
    """the normalisation the serializer is granted: line ends -> \\n, per-line right-strip"""
    return '\n'.join(line.rstrip() for line in _EOL.split(text))


def comment_regex(text):
    lines = _EOL.split(text)
    parts = [re.escape(l.rstrip()) for l in lines]
    return re.compile(r'[^\S\r\n]*(?:\r\n|\r|\n)'.join(parts))


class Mismatch(Exception):
    def __init__(self, index, kind, expected, found, why):
        Exception.__init__(self, why)
        self.index = index
        self.kind = kind
        self.expected = expected
        self.found = found
        self.why = why


def match(words, out, fold_kw=False, fold_name=False, comment_exact=False):
    """words: list of (kind, text[, ...]).  -> (gaps, ends) ; gaps has len(words)+1 entries.
    raises Mismatch.  fold_kw / fold_name: compare keywords / unquoted names case-insensitively."""
    pos = 0
    n = len(out)
    gaps = []
    ends = []
    for i, w in enumerate(words):
        kind, text = w[0], w[1]
        g0 = pos
        while pos < n and out[pos].isspace():
            pos += 1
        gaps.append(out[g0:pos])
        if kind == 'comment' and not comment_exact:
            m = comment_regex(text).match(out, pos)
            if not m:
                raise Mismatch(i, kind, text, out[pos:pos + len(text) + 10], 'comment altered or missing')
            pos = m.end()
            # the comment's own trailing line end (single-line comments) may have been consumed as a gap already
        else:
            seg = out[pos:pos + len(text)]
            same = seg == text
            if not same and ((fold_kw and kind in ('kw', 'cmp', 'type')) or (fold_name and kind in ('name', 'type', 'qname'))):
                same = seg.lower() == text.lower() and len(seg) == len(text)
            if not same:
                raise Mismatch(i, kind, text, out[pos:pos + len(text) + 10], 'expected %s %r, found %r' % (kind, text, out[pos:pos + len(text) + 10]))
            pos += len(text)
        ends.append(pos)
    g0 = pos
    while pos < n and out[pos].isspace():
        pos += 1
    gaps.append(out[g0:pos])
    if pos < n:
        raise Mismatch(len(words), 'extra', '', out[pos:pos + 30], 'extra text after the last expected word: %r' % out[pos:pos + 30])
    return gaps, ends


_OPCH = set('-+/*<>=~!@#%^&|?:.$\\')


def glued(words, gaps):
    """indices i where words[i-1] and words[i] come out without separator although the input separated them and
    the lexer reads the concatenation differently from the two words on their own (decided by lexing the pair, not by
    a character table: `- a` -> `-a` is still operator + name, `1 a` -> `1a` is not number + name)"""
    from sqlparse import lexer
    bad = []
    for i in range(1, len(words)):
        if gaps[i] != '':
            continue
        a, b = words[i - 1], words[i]
        if len(b) > 3 and b[3] == '':
            continue                      # already written tight in the input
        if a[0] == 'comment' and a[1][-1:] in '\r\n':
            continue
        try:
            sep = list(lexer.tokenize(a[1])) + list(lexer.tokenize(b[1]))
            tog = list(lexer.tokenize(a[1] + b[1]))
        except Exception:
            continue
        if [(str(t), v) for t, v in sep] != [(str(t), v) for t, v in tog]:
            bad.append(i)
    return bad
