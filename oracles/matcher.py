"""Textbook hierarchical stack matcher over (ttype, value) leaves (C09).
For kind in [SquareBrackets, Parenthesis, Case, If, For, Begin] (the order in which the kinds are matched):
match open/close innermost-first inside each existing group, never across one; unmatched tokens stay."""
from sqlparse import tokens as T

# (class name, open (ttype, values), close (ttype, values)) -- written from the documentation of the node classes
KINDS = [
    ('SquareBrackets', (T.Punctuation, ('[',)), (T.Punctuation, (']',))),
    ('Parenthesis', (T.Punctuation, ('(',)), (T.Punctuation, (')',))),
    ('Case', (T.Keyword, ('CASE',)), (T.Keyword, ('END',))),
    ('If', (T.Keyword, ('IF',)), (T.Keyword, ('END IF',))),
    ('For', (T.Keyword, ('FOR', 'FOREACH')), (T.Keyword, ('END LOOP',))),
    ('Begin', (T.Keyword, ('BEGIN',)), (T.Keyword, ('END',))),
]


def _m(tok, pat):
    ttype, vals = pat
    if tok[0] is not ttype:
        return False
    # keywords compare case-insensitively and, for multi-word keywords, modulo their inner whitespace
    v = ' '.join(tok[1].upper().split()) if tok[0] in T.Keyword else tok[1]
    return v in vals


class G:
    __slots__ = ('kind', 'items')

    def __init__(self, kind, items):
        self.kind = kind
        self.items = items


def _group_kind(items, kind, op, cl):
    out = []
    stack = []
    for it in items:
        if isinstance(it, G):
            if it.kind != kind:
                it.items = _group_kind(it.items, kind, op, cl)
            out.append(it)
            continue
        if it[0] in T.Whitespace:
            out.append(it)
            continue
        if _m(it, op):
            stack.append(len(out))
            out.append(it)
        elif _m(it, cl) and stack:
            i = stack.pop()
            out[i:] = [G(kind, out[i:] + [it])]
        else:
            out.append(it)
    return out


def _spans(items, acc, pos=0):
    for it in items:
        if isinstance(it, G):
            n = _spans(it.items, acc, pos)
            acc.add((it.kind, pos, n - 1))
            pos = n
        else:
            pos += 1
    return pos


def predict(leaves):
    """leaves: list of (ttype, value) -> set of (class name, first leaf index, last leaf index)"""
    items = list(leaves)
    for kind, op, cl in KINDS:
        items = _group_kind(items, kind, op, cl)
    acc = set()
    _spans(items, acc)
    return acc
