"""Reference scanner for C01/C03: first-match-wins over the rule *table* (keywords.SQL_REGEX as data), own loop,
own position arithmetic, own keyword lookup.  Does not use the Lexer class."""
import re

from sqlparse import keywords, tokens as T

# documented registration order of the dictionaries (lexer.default_initialization / docs extending.rst)
DICT_ORDER = ['KEYWORDS_COMMON', 'KEYWORDS_ORACLE', 'KEYWORDS_MYSQL', 'KEYWORDS_PLPGSQL', 'KEYWORDS_HQL',
              'KEYWORDS_MSACCESS', 'KEYWORDS_SNOWFLAKE', 'KEYWORDS_BIGQUERY', 'KEYWORDS']

_cache = {}


def _table():
    key = id(keywords.SQL_REGEX)
    if key not in _cache:
        _cache.clear()
        _cache[key] = [(re.compile(rx, re.IGNORECASE | re.UNICODE), tt) for rx, tt in keywords.SQL_REGEX]
    return _cache[key]


def classify_word(word):
    up = word.upper()
    for name in DICT_ORDER:
        d = getattr(keywords, name)
        if up in d:
            return d[up]
    return T.Name


def scan(text):
    """-> list of (ttype, value); raises ValueError if a rule matches the empty string"""
    table = _table()
    out = []
    pos = 0
    n = len(text)
    while pos < n:
        for rx, tt in table:
            m = rx.match(text, pos)
            if m is None:
                continue
            if m.end() <= pos:
                raise ValueError('rule %r matched the empty string at %d' % (rx.pattern, pos))
            val = text[pos:m.end()]
            if tt is keywords.PROCESS_AS_KEYWORD:
                out.append((classify_word(val), val))
            else:
                out.append((tt, val))
            pos = m.end()
            break
        else:
            out.append((T.Error, text[pos]))
            pos += 1
    return out
