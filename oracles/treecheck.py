"""Top-down tree walk that computes containment itself (explicit stack: cannot hit the recursion limit).
Never uses flatten(), token_index() or parent pointers of the tree under inspection."""


class Walk:
    __slots__ = ('nodes', 'parent', 'leaves', 'depth', 'maxdepth', 'dup', 'groups', 'first_leaf', 'last_leaf')

    def __init__(self, root):
        self.nodes = []          # preorder
        self.parent = {}         # id(node) -> parent node (None for root)
        self.leaves = []
        self.depth = {}
        self.maxdepth = 0
        self.dup = []            # nodes that occur more than once
        self.groups = []
        self.first_leaf = {}     # id(group) -> index of first leaf
        self.last_leaf = {}      # id(group) -> index of last leaf (inclusive), -1 if none
        seen = set()
        stack = [(root, None, 0, False)]
        while stack:
            node, par, d, done = stack.pop()
            if done:
                self.last_leaf[id(node)] = len(self.leaves) - 1
                continue
            if id(node) in seen:
                self.dup.append(node)
                continue
            seen.add(id(node))
            self.nodes.append(node)
            self.parent[id(node)] = par
            self.depth[id(node)] = d
            if d > self.maxdepth:
                self.maxdepth = d
            if getattr(node, 'is_group', False):
                self.groups.append(node)
                self.first_leaf[id(node)] = len(self.leaves)
                stack.append((node, par, d, True))
                for c in reversed(node.tokens):
                    stack.append((c, node, d + 1, False))
            else:
                self.leaves.append(node)

    def ancestors(self, node):
        out = []
        p = self.parent[id(node)]
        while p is not None:
            out.append(p)
            p = self.parent[id(p)]
        return out

    def text(self, node):
        if not getattr(node, 'is_group', False):
            return node.value
        return ''.join(l.value for l in self.leaves[self.first_leaf[id(node)]:self.last_leaf[id(node)] + 1])


def shape(stmt, keep_ws=False, norm=None):
    """nested (class name, children) / (ttype, value) structure, iteratively built"""
    w = Walk(stmt)
    built = {}
    for node in reversed(w.nodes):
        if getattr(node, 'is_group', False):
            kids = [built[id(c)] for c in node.tokens if keep_ws or not c.is_whitespace]
            built[id(node)] = (type(node).__name__, tuple(kids))
        else:
            v = node.value
            if norm:
                v = norm(node)
            built[id(node)] = (str(node.ttype), v)
    return built[id(stmt)]


def flat_shape(stmt, keep_ws=True):
    """preorder list of [depth, class name or ttype, value-if-leaf]: a tree encoding without nesting, so that comparing or
    serialising it cannot run into the recursion limit however deep the tree is"""
    w = Walk(stmt)
    out = []
    for n in w.nodes:
        if getattr(n, 'is_group', False):
            out.append([w.depth[id(n)], type(n).__name__, None])
        elif keep_ws or not n.is_whitespace:
            out.append([w.depth[id(n)], str(n.ttype), n.value])
    return out
