"""Shared helpers for the formatter properties (C06, C08, C10): cases built from laid-out grammar scripts."""
from hypothesis import strategies as st

from gen import grammar as G

QUOTES = '\'"'


def quote_hazard(laid):
    """lexemes whose text shifts the serializer's raw-text quote pairing: comments and backtick names containing ' or \" """
    n = 0
    for l in laid:
        if l[0] == 'comment' or (l[0] == 'qname' and l[1][0] == '`'):
            if any(q in l[1] for q in QUOTES):
                n += 1
    return n


def sanitize_quotes(laid):
    """replace ' and \" inside comments and backtick names (construction, not filtering) -> (laid, number changed)"""
    out = []
    n = 0
    for l in laid:
        if (l[0] == 'comment' or (l[0] == 'qname' and l[1][0] == '`')) and any(q in l[1] for q in QUOTES):
            t = l[1].replace("'", 'q').replace('"', 'Q')
            meta = dict(l[3])
            if 'name' in meta:
                meta['name'] = meta['name'].replace("'", 'q').replace('"', 'Q')
            out.append([l[0], t, l[2], meta])
            n += 1
        else:
            out.append(l)
    return out, n


def case_from(laid, opts, sanitize):
    san = 0
    if sanitize:
        laid, san = sanitize_quotes(laid)
    return {'lex': laid, 'opts': opts, 'sanitized': san}


def script_cases(options, sanitize, min_statements=1, max_statements=3, comments=12, procedural=False, **lay):
    plain = G.script(min_statements, max_statements, comments=comments, **lay)
    # a quarter of the scripts are CASE-heavy (CASE with AND/OR conditions in select list, WHERE and ORDER BY)
    heavy = G.script(1, 2, comments=comments, stmt=G.case_heavy_select(), **lay)
    # options first: values drawn after a large structure are biased towards their simplest form
    # T-SQL batches: statements ended by ';' + GO or by GO alone
    batches = G.script(2, 3, comments=comments, go=True, **lay)
    alts = [plain, heavy, batches]
    if procedural:
        from gen import proc
        alts.append(proc.script(depth=2, max_pre=1, max_post=1, comments=comments, **lay))
    return st.tuples(options, st.one_of(*alts)).map(
        lambda t: case_from(t[1], t[0], sanitize))


def features(clean, marks):
    f = set()
    depth = 0
    for l in clean:
        if l[0] == 'comment':
            f.add('comment')
        elif l[0] == 'lp':
            depth += 1
            if depth >= 2:
                f.add('nested-paren')
        elif l[0] == 'rp':
            depth -= 1
        elif l[0] == 'kw' and l[3].get('canon', l[1]).upper() == 'CASE':
            f.add('case')
    for m in marks:
        if m['k'] == 'list' and m['info'].get('n', 0) >= 3:
            f.add('list>=3')
    return f
