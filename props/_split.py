"""Shared oracle for C05/C17: do the pieces returned by split() coincide with the statements the generator wrote?"""


def owners(clean, marks):
    """-> (statement marks, owner[i] = statement index of lexeme i or None for free lexemes)"""
    stmts = [m for m in marks if m['k'] == 'stmt']
    owner = [None] * len(clean)
    for si, m in enumerate(stmts):
        lead = True
        for i in range(m['s'], m['e']):
            if lead and clean[i][0] == 'comment':
                continue            # a comment written before the statement's first word may stay with the previous statement
            lead = False
            owner[i] = si
        if m['e'] < len(clean) and clean[m['e']][0] == 'semi':
            owner[m['e']] = si
    return stmts, owner


def locate(text, pieces):
    pos = 0
    ext = []
    for p in pieces:
        j = pos
        while j < len(text) and text[j].isspace():
            j += 1
        if not text.startswith(p, j):
            return None
        ext.append((j, j + len(p)))
        pos = j + len(p)
    return ext


def check_extents(res, text, clean, spans, marks, pieces, nparse, suffix=''):
    stmts, owner = owners(clean, marks)
    k = len(stmts)
    if len(pieces) != k or nparse != k:
        res.fail('count', ('fewer' if len(pieces) < k else 'more' if len(pieces) > k else 'parse-differs') + suffix,
                 'script of %d statements: split gives %d, parse gives %d; text %r' % (k, len(pieces), nparse, text[:300]))
    ext = locate(text, pieces)
    if ext is None:
        res.fail('partition', '', 'pieces are not found left to right in the input')
        return k
    for i, (s, e) in enumerate(spans):
        if clean[i][0] == 'comment':
            e = s + len(clean[i][1].rstrip())      # split() strips the piece: the line end of a final comment is whitespace
        inside = [pi for pi, (a, b) in enumerate(ext) if a <= s and e <= b]
        if not inside:
            res.fail('cut-inside-lexeme', clean[i][0] + suffix, 'lexeme %r is not wholly inside one piece' % clean[i][1][:40])
            break
        if owner[i] is not None and inside[0] != owner[i]:
            res.fail('extent', ('early' if inside[0] > owner[i] else 'swallow') + suffix,
                     'lexeme %r of statement %d lies in piece %d; text %r' % (clean[i][1][:30], owner[i], inside[0], text[:300]))
            break
    return k
