"""C01 Lexer is total and lossless: tokens partition the input text (DESIGN.md section 6, C01)."""
from hypothesis import strategies as st

from sqlparse import lexer, tokens as T

from gen import chars, soup
from oracles import refscan
from vlib.core import Leg, Result, exc_failure, h64 as vlib_h

ID = 'C01'
RULE = ('cases: str inputs from G1 character soup (full Unicode incl. NUL, controls, lone surrogates, every opener with or '
        'without terminator, multi-word keyword fragments), G2 token soup and rendered grammar scripts; each is tokenized '
        'through lexer.tokenize and Lexer.get_default_instance().get_tokens and compared item by item with an independent '
        'first-match-wins reference scanner over the rule table. non-trivial: >=3 tokens of >=2 types and at least one of '
        '{Error token, unterminated opener, look-behind sensitive pair, non-BMP/surrogate/NUL/control character}; distinct by text')
ASSUMPTIONS = ['the reference scanner uses keywords.SQL_REGEX and the KEYWORDS_* dictionaries as data; rule content is C14/C16 territory',
               'bytes input is decided in C19']

OPENERS = ("'", '"', '`', '´', '/*', '$$', '[')


def _odd(text):
    return any(ord(c) > 0xFFFF or 0xD800 <= ord(c) <= 0xDFFF or ord(c) < 9 or c == '\x7f' for c in text)


def check(case):
    text = case['text']
    res = Result(key=text)
    try:
        ref = refscan.scan(text)
    except ValueError as e:
        res.fail('zero-width-rule', '', str(e))
        return res
    outs = []
    for name, fn in (('tokenize', lambda: lexer.tokenize(text)),
                     ('get_tokens', lambda: lexer.Lexer.get_default_instance().get_tokens(text))):
        try:
            toks = list(fn())
        except Exception as e:
            res.failures.append(exc_failure('raises', e))
            continue
        outs.append(toks)
        for tt, val in toks:
            if not isinstance(tt, T._TokenType) or not isinstance(val, str) or val == '':
                res.fail('item-shape', name, repr((tt, val))[:200])
                break
        if ''.join(v for _, v in toks if isinstance(v, str)) != text:
            res.fail('lossless', name, 'join of values differs from input %r' % text[:200])
        if len(toks) != len(ref) or any(a[0] is not b[0] or a[1] != b[1] for a, b in zip(toks, ref)):
            i = next((i for i, (a, b) in enumerate(zip(toks, ref)) if a[0] is not b[0] or a[1] != b[1]), min(len(toks), len(ref)))
            got = toks[i] if i < len(toks) else None
            exp = ref[i] if i < len(ref) else None
            kind = 'error-token' if (got and got[0] is T.Error) or (exp and exp[0] is T.Error) else 'differs'
            res.fail('reference', kind, 'token %d: lexer %r, reference %r, input %r' % (i, got, exp, text[:200]))
    for tt, val in ref:
        if tt is T.Error and len(val) != 1:
            res.fail('error-width', '', repr(val))
    types = {tt for tt, _ in ref}
    has_err = T.Error in types
    unterminated = has_err and any(v in "'\"`´" for tt, v in ref if tt is T.Error)
    lookbehind = any(a[1][-1:].isalnum() and b[1][:1] in '$:?[' for a, b in zip(ref, ref[1:]))
    res.nontrivial = len(ref) >= 3 and len(types) >= 2 and (has_err or unterminated or lookbehind or _odd(text))
    res.labels = ['error-token'] * has_err + ['unterminated-quote'] * unterminated + ['odd-char'] * _odd(text) + \
        ['lookbehind-pair'] * lookbehind + ['len>200'] * (len(text) > 200) + ['empty'] * (text == '')
    res.labels += ['max-token>=4096'] * any(len(v) >= 4096 for _, v in ref)
    res.sample = {'text': text[:300] if len(text) <= 300 else text[:120] + '...[%d chars]' % len(text), 'tokens': len(ref)}
    if len(text) > 2000:
        res.key = [len(text), text[:40], text[-40:], vlib_h(text)]
    return res


def _strategy(tier):
    from gen import grammar
    return st.one_of(
        chars.text(tier == 'quick'), chars.text(tier == 'quick'), chars.text(tier == 'quick'), chars.text(tier == 'quick'),
        soup.soup(), grammar.rendered_script(max_statements=3),
    ).map(lambda t: {'text': t})


LONG_LENGTHS = {'quick': [100, 255, 256, 257, 1000, 1023, 1024, 1025, 2047, 2048, 2049, 4095, 4096, 4097, 5000, 8191, 8192, 8193, 10000, 16385, 20000, 32769, 65535, 65536, 65537, 70000],
                'thorough': [100, 255, 256, 257, 1023, 1024, 1025, 2047, 2048, 2049, 4095, 4096, 4097, 8191, 8192, 8193, 16383, 16384, 16385, 32769, 65535, 65536, 65537, 131073]}


@st.composite
def long_token_cases(draw, tier):
    """one very long token (every token kind that has a repeatable body) of a boundary length, between short neighbours:
    "any length" is part of the property's quantifier, and per-token skip arithmetic only shows at large widths"""
    n = draw(st.sampled_from(LONG_LENGTHS[tier])) + draw(st.sampled_from([0, 0, 0, -1, 1, 3]))
    unit = draw(st.sampled_from(['x', 'ab', 'é', "''", ' ', 'a b', '1', '\U0001f600', 'x;', '*', '-', '%']))
    body = (unit * (n // len(unit) + 1))[:n]
    kind = draw(st.sampled_from(['sq', 'dq', 'bt', 'dollar', 'ml', 'sl', 'word', 'ws', 'digits', 'ops', 'error-run']))
    if kind == 'sq':
        tok = "'" + body.replace("'", 'q') + "'"
    elif kind == 'dq':
        tok = '"' + body.replace('"', 'q') + '"'
    elif kind == 'bt':
        tok = '`' + body.replace('`', 'q') + '`'
    elif kind == 'dollar':
        tok = '$t$' + body.replace('$', 'S') + '$t$'
    elif kind == 'ml':
        tok = '/*' + body.replace('*/', '**') + ' */'
    elif kind == 'sl':
        tok = '--' + body.replace('\n', ' ') + '\n'
    elif kind == 'word':
        tok = ('w' * n)
    elif kind == 'ws':
        tok = draw(st.sampled_from([' ', '\t', '\n'])) * n
    elif kind == 'digits':
        tok = '7' * n
    elif kind == 'ops':
        tok = draw(st.sampled_from(['+', '<', '|'])) * n
    else:
        tok = draw(st.sampled_from(['\x00', '\\', '{', '\x01'])) * min(n, 3000)
    pre = draw(st.sampled_from(['', 'select ', 'a ', '(', '; ']))
    post = draw(st.sampled_from(['', ' from t', ';', ' x', ') y']))
    return {'text': pre + tok + post}


LEGS = [Leg('long-tokens', check=check, strategy=lambda tier: long_token_cases(tier), examples={'quick': 700, 'thorough': 6000}),
        Leg('text', check=check, strategy=_strategy, examples={'quick': 40000, 'thorough': 1000000})]
