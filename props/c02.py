"""C02 parse() is text-preserving (DESIGN.md section 6, C02)."""
import io

import sqlparse
from sqlparse.exceptions import SQLParseError

from gen import sources
from oracles.treecheck import Walk
from vlib.core import Leg, Result, exc_failure

ID = 'C02'
RULE = ('cases: str inputs from G1 character soup, G2 token soup (plain and structured), rendered and damaged grammar scripts, '
        'procedural scripts and mutated seed corpus; parse(t) and tuple(parsestream(StringIO(t))) are joined and compared with the '
        'input (only a whitespace-only tail may be missing), and str(node) of every node is compared with the join of its leaf values '
        'collected by an independent iterative tree walk. non-trivial: >=2 statements, or a tree of depth >=3, or a dropped '
        'whitespace tail; distinct by text')
ASSUMPTIONS = ['whitespace is what str.isspace() says (identical to \\s under re.UNICODE)']


def check(case):
    text = case['text']
    res = Result(key=text)
    runs = []
    for name, fn in (('parse', lambda: sqlparse.parse(text)), ('parsestream', lambda: tuple(sqlparse.parsestream(io.StringIO(text))))):
        try:
            runs.append((name, fn()))
        except SQLParseError as e:
            res.labels.append('SQLParseError')
            res.fail('unexpected-SQLParseError', name, 'SQLParseError at this size: %s' % e)
        except Exception as e:
            res.failures.append(exc_failure('raises', e))
    maxdepth = 0
    nstmts = 0
    tail = False
    for name, stmts in runs:
        joined = ''.join(str(s) for s in stmts)
        nstmts = len(stmts)
        if not text.startswith(joined):
            i = next((i for i, (a, b) in enumerate(zip(joined, text)) if a != b), min(len(joined), len(text)))
            res.fail('roundtrip', name, 'joined statements differ from input at %d: %r vs %r' % (i, joined[i:i + 30], text[i:i + 30]))
        else:
            rest = text[len(joined):]
            if rest:
                tail = True
                if not rest.isspace():
                    res.fail('roundtrip-tail', name, 'missing tail is not whitespace: %r' % rest[:60])
        for s in stmts:
            w = Walk(s)
            maxdepth = max(maxdepth, w.maxdepth)
            if w.dup:
                res.fail('node-twice', name, repr(w.dup[0])[:100])
            for g in w.groups:
                t = w.text(g)
                try:
                    sg = str(g)
                except Exception as e:
                    res.failures.append(exc_failure('str-raises', e))
                    continue
                if sg != t:
                    res.fail('node-str', type(g).__name__, 'str(node)=%r, leaves=%r' % (sg[:80], t[:80]))
                    break
            flat = [l.value for l in s.flatten()]
            if flat != [l.value for l in w.leaves]:
                res.fail('flatten', name, 'flatten() differs from the tree walk')
    if len(runs) == 2:
        a, b = runs[0][1], runs[1][1]
        if [str(x) for x in a] != [str(x) for x in b]:
            res.fail('parsestream-differs', '', 'parse and parsestream give different statements')
    res.nontrivial = nstmts >= 2 or maxdepth >= 3 or tail
    res.labels += ['>=2 statements'] * (nstmts >= 2) + ['depth>=3'] * (maxdepth >= 3) + ['ws-tail dropped'] * tail + ['0 statements'] * (nstmts == 0)
    res.sample = {'text': text[:300], 'statements': nstmts, 'depth': maxdepth}
    return res


def _strategy(tier):
    return sources.any_text(tier).map(lambda t: {'text': t})


LEGS = [Leg('text', check=check, strategy=_strategy, examples={'quick': 16000, 'thorough': 400000})]
