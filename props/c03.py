"""C03 Grouping is purely structural and yields a well-formed token tree (DESIGN.md section 6, C03)."""
import sqlparse
from sqlparse import sql, tokens as T

from gen import sources
from oracles import refscan
from oracles.treecheck import Walk
from vlib.core import Leg, Result, exc_failure

ID = 'C03'
RULE = ('cases: str inputs from all text sources, biased to structured soup and grammar scripts (deep trees); per statement the leaves '
        '(type by identity, value) are compared with the independent reference scan of the input (only a Wildcard/Operator-family token '
        'may be re-typed to Operator), parent pointers / non-emptiness / single occurrence / cached value are checked on every node, and '
        'token_index, token_next/token_prev under all four flag combinations, get_token_at_offset at every offset (both ends of every '
        'leaf when longer than 400), within/has_ancestor/is_child_of are compared with containment computed by an own top-down walk. '
        'non-trivial: >=3 group classes and depth >=3; distinct by text')
ASSUMPTIONS = ['reference semantics of the navigation helpers are those documented in their docstrings',
               'the reference scan uses the rule table as data (rule content is C14)']


def is_cm(t):
    return (t.ttype is not None and t.ttype in T.Comment) or isinstance(t, sql.Comment)


def check(case):
    text = case['text']
    res = Result(key=text)
    try:
        lex = refscan.scan(text)
    except ValueError as e:
        res.fail('zero-width-rule', '', str(e))
        return res
    try:
        stmts = sqlparse.parse(text)
    except Exception as e:
        res.failures.append(exc_failure('raises', e))
        return res
    pos = 0
    classes = set()
    maxdepth = 0
    for stmt in stmts:
        if stmt.parent is not None:
            res.fail('stmt-parent', '', 'statement has a parent')
        w = Walk(stmt)
        maxdepth = max(maxdepth, w.maxdepth)
        if w.dup:
            res.fail('node-twice', type(w.dup[0]).__name__, repr(w.dup[0])[:80])
        # (i) leaves vs. reference scan
        for l in w.leaves:
            if pos >= len(lex):
                res.fail('leaf-extra', '', 'more leaves than lexer tokens: %r' % l.value[:40])
                break
            tt, v = lex[pos]
            pos += 1
            ok_type = tt is l.ttype or (l.ttype is T.Operator and (tt is T.Wildcard or tt in T.Operator))
            if v != l.value or not ok_type:
                res.fail('leaf', 'value' if v != l.value else '%s->%s' % (tt, l.ttype), 'lexer (%s, %r) vs leaf (%s, %r)' % (tt, v[:40], l.ttype, l.value[:40]))
                break
        # (ii)-(iv) structure
        for g in w.groups:
            classes.add(type(g).__name__)
            if not g.tokens:
                res.fail('empty-group', type(g).__name__, '')
                continue
            if g.value != w.text(g):
                res.fail('cached-value', type(g).__name__, 'value=%r text=%r' % (g.value[:60], w.text(g)[:60]))
            toks = g.tokens
            n = len(toks)
            for i, c in enumerate(toks):
                if c.parent is not g:
                    res.fail('parent', '%s in %s' % (type(c).__name__, type(g).__name__), 'child %d %r has parent %r' % (i, str(c)[:30], c.parent))
                    break
            if n > 60:
                idxs = list(range(0, 20)) + list(range(n - 20, n))
            else:
                idxs = range(n)
            for i in idxs:
                c = toks[i]
                try:
                    ti = g.token_index(c)
                except Exception as e:
                    res.failures.append(exc_failure('token_index-raises', e))
                    break
                # token_index finds the first *equal* token; tokens compare by identity
                if ti != i:
                    res.fail('token_index', '', 'token_index(child %d)=%r' % (i, ti))
                    break
                # the optional start argument (an index or a token at or before the child) must not change the answer
                for start in {0, i, i // 2}:
                    for st_arg in (start, toks[start]):
                        try:
                            tj = g.token_index(c, st_arg)
                        except Exception as e:
                            res.failures.append(exc_failure('token_index-raises', e))
                            tj = i
                        if tj != i:
                            res.fail('token_index', 'start', 'token_index(child %d, start=%r)=%r' % (i, start, tj))
                for sw in (True, False):
                    for sc in (True, False):
                        def skip(t):
                            return (sw and t.is_whitespace) or (sc and is_cm(t))
                        exp = next(((j, toks[j]) for j in range(i + 1, n) if not skip(toks[j])), (None, None))
                        got = g.token_next(i, sw, sc)
                        if got[0] != exp[0] or got[1] is not exp[1]:
                            res.fail('token_next', 'ws=%s,cm=%s' % (sw, sc), 'idx %d: got %r expected %r' % (i, got[0], exp[0]))
                        exp = next(((j, toks[j]) for j in range(i - 1, -1, -1) if not skip(toks[j])), (None, None))
                        got = g.token_prev(i, sw, sc)
                        if got[0] != exp[0] or got[1] is not exp[1]:
                            res.fail('token_prev', 'ws=%s,cm=%s' % (sw, sc), 'idx %d: got %r expected %r' % (i, got[0], exp[0]))
            if g.token_next(None) != (None, None):
                res.fail('token_next', 'None', 'token_next(None) != (None, None)')
        # (v) offsets
        total = sum(len(l.value) for l in w.leaves)
        off = 0
        for l in w.leaves:
            ln = len(l.value)
            probe = range(off, off + ln) if total <= 400 else {off, off + ln - 1}
            for o in probe:
                if stmt.get_token_at_offset(o) is not l:
                    res.fail('offset', '', 'get_token_at_offset(%d) is not the covering leaf %r' % (o, l.value[:20]))
                    break
            off += ln
        if stmt.get_token_at_offset(off) is not None:
            res.fail('offset-end', '', 'get_token_at_offset(len) is not None')
        # ancestors
        step = max(1, len(w.leaves) // 40)
        for l in w.leaves[::step]:
            anc = w.ancestors(l)
            for a in anc:
                if not l.has_ancestor(a):
                    res.fail('has_ancestor', '', 'missing ancestor %s' % type(a).__name__)
                if not l.within(type(a)):
                    res.fail('within', type(a).__name__, '')
            if anc and not l.is_child_of(anc[0]):
                res.fail('is_child_of', 'direct', '')
            if len(anc) > 1 and l.is_child_of(anc[-1]):
                res.fail('is_child_of', 'non-parent', '')
            anc_ids = {id(a) for a in anc}
            for g in w.groups[:12]:
                if id(g) not in anc_ids and l.has_ancestor(g):
                    res.fail('has_ancestor', 'false-positive', type(g).__name__)
            for cls in (sql.Parenthesis, sql.Function, sql.Where, sql.Identifier, sql.Case):
                if l.within(cls) != any(isinstance(a, cls) for a in anc):
                    res.fail('within', 'mismatch-' + cls.__name__, '')
        # ... and for the groups themselves: a node is not its own ancestor, parent or enclosing group
        gstep = max(1, len(w.groups) // 30)
        for g in w.groups[::gstep]:
            anc = w.ancestors(g)
            if g.has_ancestor(g) or g.is_child_of(g):
                res.fail('has_ancestor', 'self', '%s node reports itself as its ancestor / parent' % type(g).__name__)
            for a in anc:
                if not g.has_ancestor(a):
                    res.fail('has_ancestor', 'group', 'missing ancestor %s of a %s node' % (type(a).__name__, type(g).__name__))
            for cls in {type(g), sql.Parenthesis, sql.Statement, sql.Identifier}:
                if g.within(cls) != any(isinstance(a, cls) for a in anc):
                    res.fail('within', 'group-mismatch-' + cls.__name__, '%s.within(%s) is %r, the enclosing groups are %s' % (
                        type(g).__name__, cls.__name__, g.within(cls), [type(a).__name__ for a in anc]))
    if any(tt not in T.Whitespace for tt, v in lex[pos:]):
        res.fail('leaf-missing', '', 'lexer tokens beyond the last statement are not all whitespace')
    res.nontrivial = len(classes) >= 3 and maxdepth >= 3
    res.labels = ['depth>=3'] * (maxdepth >= 3) + ['depth>=6'] * (maxdepth >= 6) + ['>=3 classes'] * (len(classes) >= 3) + ['>=6 classes'] * (len(classes) >= 6)
    res.sample = {'text': text[:300], 'classes': sorted(classes), 'depth': maxdepth}
    return res


def _strategy(tier):
    return sources.any_text(tier, weights=(1, 2, 3, 5, 2, 2, 1, 1, 1, 3)).map(lambda t: {'text': t})


def _dict_enum(tier):
    from gen import soup
    for text in soup.dictionary_enumeration():
        yield {'text': text}


LEGS = [Leg('text', check=check, strategy=_strategy, examples={'quick': 8000, 'thorough': 150000}),
        Leg('dictionary', check=check, enumerate=_dict_enum, exhaustive=True)]
