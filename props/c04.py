"""C04 split() partitions the input and agrees with parse() (DESIGN.md section 6, C04)."""
import sqlparse

from gen import sources
from vlib.core import Leg, Result, exc_failure

ID = 'C04'
RULE = ('cases: str inputs from all text sources (character soup, token soup, grammar scripts with every separator shape, procedural '
        'scripts, mutated corpus); split(t) is compared with [str(s).strip() for s in parse(t)], the pieces are located left to right in '
        'the input (everything between them must be whitespace), and every piece is split again. non-trivial: >=2 pieces, or one piece '
        'with an interior semicolon; distinct by text')
ASSUMPTIONS = ['str.strip()/isspace() define whitespace']


def check(case):
    text = case['text']
    res = Result(key=text)
    try:
        pieces = sqlparse.split(text)
        parsed = sqlparse.parse(text)
    except Exception as e:
        res.failures.append(exc_failure('raises', e))
        return res
    exp = [str(s).strip() for s in parsed]
    if pieces != exp:
        res.fail('agrees-with-parse', '%d/%d' % (len(pieces), len(exp)), 'split=%r parse=%r' % ([p[:30] for p in pieces][:5], [p[:30] for p in exp][:5]))
    pos = 0
    starts = {}
    for i, p in enumerate(pieces):
        if not isinstance(p, str) or p == '':
            res.fail('empty-piece', '', 'piece %d is %r' % (i, p))
            continue
        j = pos
        while j < len(text) and text[j].isspace():
            j += 1
        if not text.startswith(p, j):
            res.fail('partition', '', 'piece %d %r not found at %d (input there: %r)' % (i, p[:40], j, text[j:j + 40]))
            break
        starts[i] = j
        pos = j + len(p)
    else:
        if text[pos:].strip() != '':
            res.fail('partition-tail', '', 'non-whitespace after the last piece: %r' % text[pos:pos + 40])
    for i, p in enumerate(pieces):
        try:
            again = sqlparse.split(p)
        except Exception as e:
            res.failures.append(exc_failure('resplit-raises', e))
            continue
        if again != [p]:
            sig = '%d' % len(again)
            j = starts.get(i)
            if j is not None:
                end = j + len(p)
                if p.endswith('#') and text[end:end + 1] in (' ',) :
                    sig = 'hash-comment-lost-its-blank'        # '# ' comment with empty body: strip() removes the blank that made it a comment
                elif j > 0 and p[:1] in '[$:?' and (text[j - 1].isalnum() or text[j - 1] in '_"$])'):
                    sig = 'lookbehind-at-piece-start'          # first token is lexed by a look-behind rule; its left context is gone
            res.fail('resplit', sig, 'split(piece) = %r for piece %r' % ([a[:40] for a in again][:4], p[:80]))
    interior = len(pieces) == 1 and ';' in pieces[0][:-1]
    res.nontrivial = len(pieces) >= 2 or interior
    res.labels = ['>=2 pieces'] * (len(pieces) >= 2) + ['interior ;'] * interior + \
        ['piece ends in comment'] * any(p.rstrip().endswith('*/') or '--' in p.rsplit('\n', 1)[-1] for p in pieces) + \
        ['$$'] * ('$$' in text) + ['GO'] * (' go' in (' ' + text.lower())) + ['0 pieces'] * (not pieces)
    res.sample = {'text': text[:300], 'pieces': len(pieces)}
    return res


def _strategy(tier):
    return sources.any_text(tier, weights=(2, 2, 1, 4, 2, 3, 1, 4, 1, 2)).map(lambda t: {'text': t})


LEGS = [Leg('text', check=check, strategy=_strategy, examples={'quick': 16000, 'thorough': 400000})]
