"""C05 Statements end exactly at top-level semicolons; opaque regions never split (DESIGN.md section 6, C05)."""
from hypothesis import strategies as st

import sqlparse

from gen import grammar as G, regions as R
from props import _split
from vlib.core import Leg, Result, exc_failure, excluded_hazards

ID = 'C05'
RULE = ('cases: scripts of k in [1,6] plain grammar statements joined by semicolons with drawn whitespace/comments as separators and a '
        'drawn tail; up to 3 opaque regions (string, quoted name, dollar-quote, block/line comment) get an adversarial replacement body '
        '(full character set plus ; GO END BEGIN -- /* fragments, minus the terminator) and up to one parenthesis gets a token-soup body '
        'with semicolons; split()/parse() must return exactly the k statements, every lexeme wholly inside the piece of its own statement. '
        'non-trivial: k>=2 and at least one region body containing a semicolon; distinct by script text')
ASSUMPTIONS = ['tail domain: nothing, whitespace, or a -- comment on the line of the last semicolon (a comment-only tail after a newline or a /* */ '
               'tail is a separate comment-only statement by the documented splitting rules)',
               'GO inside parentheses is not generated (documented batch separator irrespective of nesting)']

HAZ = 'end_before_paren_semicolon'


@st.composite
def cases(draw, hazard):
    laid = draw(G.script(1, 6, comments=12, inner=False))
    laid = [list(l) for l in laid]
    # opaque lexeme regions
    idx = [i for i, l in enumerate(laid) if l[0] in ('str', 'qname', 'comment')]
    for _ in range(draw(st.integers(0, 3))):
        if not idx:
            break
        i = idx[draw(st.integers(0, len(idx) - 1))]
        l = laid[i]
        b = draw(R.adversarial)
        if l[0] == 'str':
            if draw(st.integers(0, 3)) == 0:
                tag = draw(st.sampled_from(R.TAGS))
                # other dollar tags inside the body are ordinary characters: only the region's own tag terminates it
                b = b + draw(st.sampled_from(['', '', ' $$ ; ', ' $other$ ; $other$ ', ';$_$', '$1 ; $2', ' ; $%s$ ; ' % tag.swapcase() if tag else ' ; ']))
                new = R.dollar_body(b, tag)
            else:
                new = R.sq_body(b)
        elif l[0] == 'qname':
            prevl = next((x for x in reversed(laid[:i]) if x[0] != 'mark'), None)
            after_dot = l[3].get('force') or (prevl is not None and prevl[1][-1:] in '.])' and l[3].get('gap', ' ') == '')
            if draw(st.integers(0, 2)) == 0 and not after_dot:
                new = R.br_body(draw(st.sampled_from(['', '', "'", '"', " '", '`'])) + b)           # [bracket-quoted name]: ended by ']' only, also when it starts with a quote
            else:
                new = R.dq_body(b) if l[1][0] == '"' else R.bt_body(b)
        elif l[1].startswith('/*'):
            new = R.block_comment(b)
        elif l[1].startswith('--'):
            new = R.line_comment(b, draw(st.sampled_from(['\n', '\r\n', '\r'])))
        else:
            continue
        laid[i] = [l[0], new, l[2], dict(l[3], region=True)]
    # one parenthesis region
    opens = [i for i, l in enumerate(laid) if l[0] == 'mark' and l[3].get('k') == 'paren' and l[3].get('m') == 'o']
    if opens and draw(st.integers(0, 2)):
        i = opens[draw(st.integers(0, len(opens) - 1))]
        depth = 0
        j = i
        for j in range(i, len(laid)):
            if laid[j][0] == 'mark' and laid[j][3].get('k') == 'paren':
                depth += 1 if laid[j][3]['m'] == 'o' else -1
                if depth == 0:
                    break
        inner = [x for x in laid[i + 1:j] if x[0] != 'mark']
        if len(inner) >= 2 and inner[0][0] == 'lp' and inner[-1][0] == 'rp':
            # was there a CASE ... END earlier in this statement?  (hazard of F5)
            before_end = False
            for x in reversed(laid[:i]):
                if x[0] == 'mark' and x[3].get('k') == 'stmt' and x[3].get('m') == 'o':
                    break
                if x[0] == 'kw' and x[3].get('canon', x[1]).upper() == 'END':
                    before_end = True
            allow_semicolon = hazard or not before_end
            body = draw(R.paren_body(with_end=hazard))
            if not allow_semicolon:
                body = body.replace(';', ',')
            pb = ['parenbody', body, True, {'gap': ' ', 'region': True}]
            laid[i + 1:j] = [inner[0], pb, [inner[-1][0], inner[-1][1], True, dict(inner[-1][3], gap=' ')]]
    # a single-quoted literal whose body ends in a backslash: behind it `\\'` could be an escaped quote, but when no later
    # quote exists in the script the only reading is a complete literal (the lexer rule reaches it by backing off)
    quoted = [i for i, l in enumerate(laid) if "'" in l[1]]
    if quoted and laid[quoted[-1]][0] == 'str' and laid[quoted[-1]][1][:1] == "'" and draw(st.integers(0, 3)) == 0:
        l = laid[quoted[-1]]
        laid[quoted[-1]] = [l[0], l[1][:-1] + draw(st.sampled_from(['\\', ';\\', 'a;b\\', ' ; x\\\\\\', 'C:\\bin;D:\\'])) + "'", l[2], dict(l[3], region=True, bs_end=True)]
    tail = draw(st.sampled_from(['', '', ' ', '\n', ' \n\t ', ' -- tail ; x', ' --\n', '  -- c;\n ']))
    lead = draw(st.sampled_from(['', '', ' ', '\n', '\t\n ']))
    return {'lex': laid, 'tail': tail, 'lead': lead}


def check(case):
    laid = case['lex']
    text, clean, spans, marks = G.assemble(laid, lead=case.get('lead', ''), tail=case.get('tail', ''))
    res = Result(key=text)
    stmts = [m for m in marks if m['k'] == 'stmt']
    k = len(stmts)
    try:
        pieces = sqlparse.split(text)
        nparse = len(sqlparse.parse(text))
    except Exception as e:
        res.failures.append(exc_failure('raises', e))
        return res
    hazard = False
    for m in stmts:
        seen_end = False
        for i in range(m['s'], m['e']):
            l = clean[i]
            if l[0] == 'kw' and l[3].get('canon', l[1]).upper() == 'END':
                seen_end = True
            if l[0] == 'parenbody' and (seen_end and ';' in l[1] or 'end' in l[1].lower().split()):
                hazard = True
    sig = 'hazard' if hazard else ''
    _split.check_extents(res, text, clean, spans, marks, pieces, nparse, (':' + sig) if sig else '')
    region_semis = sum(1 for l in clean if l[3].get('region') and ';' in l[1]) + sum(1 for l in clean if l[0] in ('str', 'comment', 'qname') and ';' in l[1])
    res.nontrivial = k >= 2 and region_semis >= 1
    res.labels = ['k=%d' % k, 'regions-with-semicolon'] * 1 if region_semis else ['k=%d' % k]
    res.labels += ['replaced-region'] * any(l[3].get('region') for l in clean) + ['paren-body'] * any(l[0] == 'parenbody' for l in clean) + \
        ['dollar'] * any(l[0] == 'str' and l[1][0] == '$' for l in clean) + ['tail-comment'] * ('--' in case.get('tail', '')) + ['literal-ends-in-backslash'] * any(l[3].get('bs_end') for l in clean) + ['hazard:' + HAZ] * hazard
    res.sample = {'text': text[:300], 'k': k}
    return res


def _main(tier):
    return cases(hazard=HAZ not in excluded_hazards(ID))


def _hazard(tier):
    return cases(hazard=True)


@st.composite
def long_region_cases(draw, tier):
    """region bodies of boundary lengths (the lexer must keep a region opaque whatever its size)"""
    n = draw(st.sampled_from([1000, 4096, 10000, 32768, 65530, 65536, 65540, 70000] + ([131073, 200000] if tier != 'quick' else []))) + draw(st.integers(-2, 2))
    kind = draw(st.sampled_from(['sq', 'dq', 'bt', 'br', 'dollar', 'ml', 'sl']))
    unit = draw(st.sampled_from(['x', 'x;', 'ab ( ', ' ; ', 'é', '\n;']))
    body = (unit * (n // len(unit) + 1))[:n] + '; y'
    if kind == 'sq':
        lexeme = ['str', R.sq_body(body), False, {'region': True}]
    elif kind == 'dq':
        lexeme = ['qname', R.dq_body(body), False, {'region': True, 'name': body}]
    elif kind == 'bt':
        lexeme = ['qname', R.bt_body(body), False, {'region': True, 'name': body}]
    elif kind == 'br':
        lexeme = ['qname', R.br_body(body), False, {'region': True, 'name': body}]
    elif kind == 'dollar':
        lexeme = ['str', R.dollar_body(body, draw(st.sampled_from(R.TAGS))), False, {'region': True}]
    elif kind == 'ml':
        lexeme = ['comment', R.block_comment(body), True, {'region': True}]
    else:
        lexeme = ['comment', R.line_comment(body, '\n'), True, {'region': True}]
    from gen.grammar import L, kw, W
    first = W('stmt', [L('kw', 'SELECT', False, lead='SELECT'), L('name', 'a'), lexeme if kind in ('ml', 'sl') else P_(), lexeme if kind not in ('ml', 'sl') else L('name', 'b'),
                       kw('FROM', clause=True), L('name', 't')], type='SELECT')
    second = W('stmt', [L('kw', 'SELECT', False, lead='SELECT'), L('num', '2')], type='SELECT')
    lex = first + [list(G.SEMI)] + second + ([list(G.SEMI)] if draw(st.booleans()) else [])
    return {'lex': G.canonical(lex), 'tail': '', 'lead': ''}


def P_():
    return G.P(',')


LEGS = [Leg('long-regions', check=check, strategy=lambda tier: long_region_cases(tier), examples={'quick': 64, 'thorough': 600}),
        Leg('main', check=check, strategy=_main, examples={'quick': 8000, 'thorough': 200000}),
        Leg('hazard', check=check, strategy=_hazard, examples={'quick': 1500, 'thorough': 30000}, hazard_leg=True)]
