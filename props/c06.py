"""C06 Layout formatting never changes the significant tokens of the SQL (DESIGN.md section 6, C06)."""
import sqlparse
from sqlparse import lexer, tokens as T

from gen import grammar as G, options as O
from oracles import lexmatch
from props import _fmt
from vlib.core import Leg, Result, exc_failure, excluded_hazards

ID = 'C06'
RULE = ('cases: grammar scripts of 1-3 statements (comments at any gap, drawn whitespace/casing/tightness) x every subset of the 11 '
        'layout options with drawn values; format() output is matched word by word against the lexemes the generator wrote (literals and '
        'quoted names byte-identical, comments modulo line-end/trailing-blank normalisation, no glued neighbours), re-lexed and compared '
        'with the lexing of the input, and split into statements. non-trivial: output differs from input, >=12 lexemes and at least one '
        'of {comment, nested parenthesis, CASE, list of >=3}; distinct by (script text, option set)')
ASSUMPTIONS = ['the serializer may normalise line ends and trailing blanks outside quoted text (property mechanism); comments are compared modulo that']

HAZ = 'quote_in_comment_or_backtick'


def explode(tokens):
    out = []
    for tt, v in tokens:
        if tt in T.Whitespace:
            continue
        if tt in T.Comment:
            out.append(('comment', lexmatch.norm_comment(v).strip()))
        elif tt in T.Keyword or tt is T.Operator.Comparison or tt in T.Name.Builtin:
            out.extend(('word', w) for w in v.split())
        elif tt in T.String or (tt is T.Name and v[:1] in '`"['):
            out.append(('quoted', v))
        else:
            out.append(('tok', v))
    return out


def check(case):
    laid, opts = case['lex'], case['opts']
    text, clean, spans, marks = G.assemble(laid)
    res = Result(key=[text, sorted(opts.items())])
    nstmt = sum(1 for m in marks if m['k'] == 'stmt')
    try:
        out = sqlparse.format(text, **dict(opts))
    except Exception as e:
        res.failures.append(exc_failure('raises', e))
        return res
    words = G.words_of(clean)
    try:
        gaps, _ = lexmatch.match(words, out)
    except lexmatch.Mismatch as m:
        sig = m.kind
        if m.kind in ('str', 'qname') and lexmatch.norm_comment(m.expected) != m.expected and \
                m.found.startswith(lexmatch.norm_comment(m.expected)[:len(m.found)]):
            sig = m.kind + '-eol-normalised'       # the literal differs exactly by line-end / trailing-blank normalisation
        res.fail('significant-tokens', sig, 'word %d: %s; options %r' % (m.index, m.why, opts))
        gaps = None
    if gaps is not None:
        bad = lexmatch.glued(words, gaps)
        if bad:
            i = bad[0]
            res.fail('fused', '%s+%s' % (words[i - 1][0], words[i][0]), '%r glued to %r; options %r' % (words[i - 1][1], words[i][1], opts))
    try:
        a = explode(lexer.tokenize(text))
        b = explode(lexer.tokenize(out))
        if a != b:
            i = next((i for i, (x, y) in enumerate(zip(a, b)) if x != y), min(len(a), len(b)))
            sig = a[i][0] if i < len(a) else 'end'
            if i < len(a) and i < len(b) and a[i][0] == b[i][0] == 'quoted' and lexmatch.norm_comment(a[i][1]) == b[i][1]:
                sig = 'quoted-eol-normalised'
            res.fail('relex', sig, 'token %d: input %r, output %r; options %r' % (
                i, a[i] if i < len(a) else None, b[i] if i < len(b) else None, opts))
        n_in, n_out = len(sqlparse.split(text)), len(sqlparse.split(out))
        if n_in != n_out:
            res.fail('statement-count', '%d->%d' % (n_in, n_out), 'input splits into %d, output into %d; options %r' % (n_in, n_out, opts))
    except Exception as e:
        res.failures.append(exc_failure('raises', e))
    feats = _fmt.features(clean, marks)
    res.nontrivial = out != text and len(clean) >= 12 and bool(feats)
    res.labels = ['opt:' + k for k in opts] + ['no options'] * (not opts) + ['feat:' + f for f in feats] + \
        ['sanitized-quote-lexeme'] * bool(case.get('sanitized')) + ['changed'] * (out != text)
    if _fmt.quote_hazard(clean):
        res.labels.append('hazard:' + HAZ)
    res.sample = {'text': text[:300], 'options': opts, 'output': out[:200]}
    return res


def _main(tier):
    return _fmt.script_cases(O.layout_options(), sanitize=HAZ in excluded_hazards(ID), procedural=True)


def _hazard(tier):
    return _fmt.script_cases(O.layout_options(), sanitize=False, comments=25, procedural=True)


LEGS = [Leg('main', check=check, strategy=_main, examples={'quick': 6000, 'thorough': 150000}),
        Leg('hazard', check=check, strategy=_hazard, examples={'quick': 1200, 'thorough': 25000}, hazard_leg=True)]
