"""C07 Totality: any text and any valid option set gives a result or SQLParseError (DESIGN.md section 6, C07)."""
import io

from hypothesis import strategies as st

import sqlparse
from sqlparse import sql
from sqlparse.exceptions import SQLParseError

from gen import sources, options as O
from oracles.treecheck import Walk
from vlib.core import Leg, Result, exc_failure

ID = 'C07'
RULE = ('leg comment-led: statement-leading comment x 27 followers (joiners, clauses, operators, closers) x 6 option sets, first or later statement, enumerated. cases: (text, valid documented option set) with text from all sources incl. damaged grammar scripts, procedural scripts and mutated corpus; '
        'format/split(+-strip_semicolon)/parse/parsestream are called and every public read-only accessor is called on every node of the parsed tree '
        '(generators drained); only SQLParseError may escape. Second leg enumerates the table of invalid option values: format() must raise '
        'SQLParseError without reading the input stream. non-trivial: text yields >=1 group node and (>=2 options or an accessor-bearing node class); '
        'distinct by (text, options)')
ASSUMPTIONS = ['right_margin is excluded from the option domain: accepted by validate_options but undocumented, its filter raises NotImplementedError by design',
               'accessors are called with their documented default arguments (get_cases also with skip_ws=True)']

ACCESSORS = ['get_type', 'get_name', 'get_alias', 'get_real_name', 'get_parent_name', 'has_alias', 'get_identifiers', 'get_parameters',
             'get_window', 'get_typecast', 'get_ordering', 'get_array_indices', 'is_wildcard', 'is_multiline', 'get_sublists', 'token_first',
             'flatten']


def _drain(x):
    if x is not None and hasattr(x, '__next__'):
        for _ in x:
            pass


def walk_accessors(stmt, res, seen_classes):
    w = Walk(stmt)
    for node in w.groups:
        seen_classes.add(type(node).__name__)
        for name in ACCESSORS:
            fn = getattr(node, name, None)
            if fn is None:
                continue
            try:
                _drain(fn())
            except SQLParseError:
                pass
            except Exception as e:
                f = exc_failure('accessor', e)
                f.sig = '%s.%s:%s' % (type(node).__name__, name, f.sig)
                res.failures.append(f)
        if isinstance(node, sql.Case):
            for sk in (False, True):
                try:
                    node.get_cases(skip_ws=sk)
                except SQLParseError:
                    pass
                except Exception as e:
                    f = exc_failure('accessor', e)
                    f.sig = 'Case.get_cases:' + f.sig
                    res.failures.append(f)
        if isinstance(node, sql.Comparison):
            try:
                node.left, node.right
            except Exception as e:
                res.failures.append(exc_failure('accessor', e))
    try:
        stmt._pprint_tree(f=io.StringIO())
        repr(stmt)
        for n in w.nodes[:50]:
            repr(n)
    except Exception as e:
        res.failures.append(exc_failure('pprint', e))
    return len(w.groups)


def check(case):
    text, opts = case['text'], case['opts']
    res = Result(key=[text, sorted(opts.items())])
    calls = [
        ('format', lambda: sqlparse.format(text, **dict(opts))),
        ('split', lambda: sqlparse.split(text)),
        ('split-strip', lambda: sqlparse.split(text, strip_semicolon=True)),
        ('parsestream', lambda: [str(s) for s in sqlparse.parsestream(io.StringIO(text))]),
    ]
    for name, fn in calls:
        try:
            fn()
        except SQLParseError:
            res.labels.append('SQLParseError:' + name)
        except Exception as e:
            f = exc_failure('escapes', e)
            f.sig = name + ':' + f.sig
            res.failures.append(f)
    groups = 0
    classes = set()
    try:
        stmts = sqlparse.parse(text)
    except SQLParseError:
        stmts = ()
    except Exception as e:
        res.failures.append(exc_failure('escapes', e))
        stmts = ()
    for s in stmts:
        groups += walk_accessors(s, res, classes)
    rich = classes & {'Function', 'Identifier', 'IdentifierList', 'Case', 'Comparison', 'Where', 'Parenthesis'}
    res.nontrivial = groups >= 1 and (len(opts) >= 2 or bool(rich))
    res.labels += ['opts>=2'] * (len(opts) >= 2) + ['cls:' + c for c in sorted(rich)] + ['opt:' + k for k in opts]
    res.sample = {'text': text[:200], 'options': opts}
    return res


def _strategy(tier):
    return st.tuples(O.valid_options(), sources.any_text(tier, weights=(2, 3, 3, 2, 4, 2, 2, 2, 6, 3))).map(lambda t: {'text': t[1], 'opts': t[0]})


class Recording(io.StringIO):
    reads = 0

    def read(self, *a):
        self.reads += 1
        return io.StringIO.read(self, *a)


def _invalid_cases(tier):
    for i, (opt, val) in enumerate(O.invalid_table()):
        yield {'i': i, 'opt': opt, 'val': repr(val)}


def check_invalid(case):
    opt, val = O.invalid_table()[case['i']]
    res = Result(key=[opt, repr(val)], nontrivial=True)
    for other in ({}, {'reindent': True, 'keyword_case': 'upper'}):
        stream = Recording('select a from b where c = 1')
        opts = dict(other)
        opts[opt] = val
        try:
            out = sqlparse.format(stream, **opts)
            res.fail('invalid-accepted', opt, '%s=%r accepted, output %r' % (opt, val, out[:40]))
        except SQLParseError:
            pass
        except Exception as e:
            f = exc_failure('invalid-other-exception', e)
            f.sig = '%s=%s:%s' % (opt, type(val).__name__ if not isinstance(val, float) else repr(val), f.sig)
            res.failures.append(f)
        if stream.reads:
            res.fail('invalid-after-read', opt, '%s=%r: input stream was read before the option was rejected' % (opt, val))
    res.labels = ['invalid:' + opt]
    res.sample = {'option': opt, 'value': repr(val)}
    return res


def _dict_enum(tier):
    from gen import soup
    for i, text in enumerate(soup.dictionary_enumeration()):
        yield {'text': text, 'opts': [{}, {'reindent': True}, {'reindent_aligned': True, 'strip_comments': True}, {'use_space_around_operators': True, 'keyword_case': 'upper'}][i % 4]}


LED_COMMENTS = ['/* c */', '-- remark\n', '/*+ hint */', '# c\n', '/* a */ /* b */']
LED_FIRST = ['as x', 'AS', ':: int', ':= 1', '. b', '= 1', '+ 1', ', b', 'x', 'a.b', '( 1 )', 'and b', 'over ( )', 'in ( 1 )', 'like b', 'desc', '[ 1 ]',
             'case when a then b end', 'end', "at time zone 'utc'", 'between 1 and 2', 'union select 1', ') x', 'from t', 'where a', 'order by a', 'values ( 1 )']
LED_OPTS = [{'strip_comments': True}, {'strip_comments': True, 'strip_whitespace': True}, {'strip_comments': True, 'reindent': True}, {'reindent_aligned': True},
            {'use_space_around_operators': True, 'strip_comments': True}, {}]


def _comment_led(tier):
    """a statement (first or later) that starts with a comment directly followed by a joiner / clause / operator: the shapes
    in which grouping makes the leading comment the first child of a nested group; enumerated completely"""
    for pre in ['', 'select 1; ']:
        for cm in LED_COMMENTS:
            for gap in ['', ' ']:
                for first in LED_FIRST:
                    for opts in LED_OPTS:
                        yield {'text': pre + cm + gap + first, 'opts': opts}


LEGS = [Leg('comment-led', check=check, enumerate=_comment_led, exhaustive=True),
        Leg('dictionary', check=check, enumerate=_dict_enum, exhaustive=True),
        Leg('text', check=check, strategy=_strategy, examples={'quick': 16000, 'thorough': 400000}),
        Leg('invalid', check=check_invalid, enumerate=_invalid_cases, exhaustive=True, max_shards=2)]
