"""C08 Targeted filters change exactly their target tokens and nothing else (DESIGN.md section 6, C08)."""
from hypothesis import strategies as st

import sqlparse
from sqlparse import lexer, tokens as T

from gen import grammar as G, options as O
from oracles import lexmatch
from props import _fmt
from vlib.core import Leg, Result, exc_failure, excluded_hazards

ID = 'C08'
RULE = ('cases: grammar scripts with comments and hints x one targeted filter {strip_comments; keyword_case x3; identifier_case x3; truncate_strings N '
        '(+-truncate_char)} alone or combined with a drawn layout option set; the expected non-whitespace token sequence is computed from the lexing of '
        'the INPUT (comments minus hints removed / Keyword tokens re-cased / Name and non-double-quoted Symbol tokens re-cased / String.Single longer than N cut to N '
        'characters + marker) and compared with the re-lexed output; alone, the filter is applied twice. non-trivial: >=1 target token and >=1 look-alike '
        'non-target (keyword or comment opener inside a literal/comment/quoted name, quoted name equal to a keyword, literal of length exactly N, comment next to '
        'a parenthesis/operator/word); distinct by (script text, options)')
ASSUMPTIONS = ['token types of the input are taken from the lexer (the lexer itself is C01/C14)',
               'truncate_char is drawn from markers without quotes or backslashes']

HAZ_Q = 'quote_in_comment_or_backtick'
HAZ_T = 'truncate_cut_in_quote_pair'
HINTS = (T.Comment.Multiline.Hint, T.Comment.Single.Hint)
CONV = {'upper': str.upper, 'lower': str.lower, 'capitalize': str.capitalize}


def trunc_hazard(value, n):
    """literal whose cut position falls inside a '' pair, or that starts with a doubled quote (F7)"""
    if value[:2] == "''" and len(value) > 2:
        return True
    inner = value[1:-1]
    if len(inner) <= n:
        return False
    cut = inner[:n]
    run = len(cut) - len(cut.rstrip("'"))
    return run % 2 == 1


def expected_tokens(toks, opts):
    """-> list of [kind, value, src index] for the non-whitespace tokens the output must consist of"""
    out = []
    kc = CONV.get(opts.get('keyword_case'))
    ic = CONV.get(opts.get('identifier_case'))
    n = opts.get('truncate_strings')
    mark = opts.get('truncate_char', '[...]')
    for i, (tt, v) in enumerate(toks):
        if tt in T.Whitespace:
            continue
        if tt in T.Comment:
            if opts.get('strip_comments') and tt not in HINTS:
                continue
            out.append(['comment', v, i])
            continue
        if kc and tt in T.Keyword:
            v = kc(v)
        if ic and (tt is T.Name or tt is T.String.Symbol) and v.strip()[0] != '"':
            v = ic(v)
        if n and tt is T.String.Single:
            inner = v[1:-1]
            if len(inner) > n:
                v = "'" + inner[:n] + mark + "'"
        out.append(['tok', v, i])
    return out


def explode(items):
    out = []
    for kind, v, i in items:
        if kind == 'comment':
            out.append(('comment', lexmatch.norm_comment(v).strip(), i))
        else:
            for w in v.split() if not (v[:1] in '\'"`[$' or v[:2] in ('--', '/*')) else [v]:
                out.append(('tok', w, i))
    return out


def relex(text):
    out = []
    for i, (tt, v) in enumerate(lexer.tokenize(text)):
        if tt in T.Whitespace:
            continue
        out.append(['comment' if tt in T.Comment else 'tok', v, i])
    return out


TARGETED = ('strip_comments', 'keyword_case', 'identifier_case', 'truncate_strings', 'truncate_char')


def check(case):
    laid, opts = case['lex'], case['opts']
    text, clean, spans, marks = G.assemble(laid)
    res = Result(key=[text, sorted(opts.items())])
    try:
        out = sqlparse.format(text, **dict(opts))
    except Exception as e:
        res.failures.append(exc_failure('raises', e))
        return res
    toks = list(lexer.tokenize(text))
    n = opts.get('truncate_strings')
    haz_t = [i for i, (tt, v) in enumerate(toks) if n and tt is T.String.Single and trunc_hazard(v, n)]
    exp = explode(expected_tokens(toks, opts))
    got = explode(relex(out))
    if [x[:2] for x in exp] != [x[:2] for x in got]:
        i = next((i for i, (a, b) in enumerate(zip(exp, got)) if a[:2] != b[:2]), min(len(exp), len(got)))
        e = exp[i] if i < len(exp) else None
        g = got[i] if i < len(got) else None
        sig = 'other'
        src = toks[e[2]] if e else None
        if e and src[0] in T.Comment or (g and g[0] == 'comment' and not (e and e[0] == 'comment')):
            sig = 'comment'
        elif e and src[0] is T.String.Single:
            sig = 'literal'
            if e[2] in haz_t:
                sig = 'literal:trunc-hazard'
            elif g and g[0] == 'tok' and lexmatch.norm_comment(e[1]) == g[1]:
                sig = 'quoted-eol-normalised'
        elif e and src[0] in T.Keyword:
            sig = 'keyword'
        elif e and (src[0] is T.Name or src[0] is T.String.Symbol):
            sig = 'identifier'
            if g and g[0] == 'tok' and lexmatch.norm_comment(e[1]) == g[1]:
                sig = 'quoted-eol-normalised'
        res.fail('relex', sig, 'token %d: expected %r, output has %r; options %r; input %r' % (i, e[:2] if e else None, g[:2] if g else None, opts, text[:200]))
    alone = all(k in TARGETED for k in opts)
    if alone and opts and not res.failures:     # the fixed-point clause presupposes a correct first application
        try:
            again = sqlparse.format(out, **dict(opts))
            if again != out:
                i = next((i for i, (a, b) in enumerate(zip(again, out)) if a != b), min(len(again), len(out)))
                import re
                # blanks directly behind a statement separator (';' or the batch separator GO)
                sq = lambda t: re.sub(r'(;|\bGO)[^\S\r\n]+', r'\1', t, flags=re.IGNORECASE)
                sig = 'trunc-hazard' if haz_t else ('eol-normalised' if lexmatch.norm_comment(out) == lexmatch.norm_comment(again) else
                                                    'blanks-after-semicolon' if sq(out) == sq(again) and opts.get('strip_comments') else 'changed')
                res.fail('idempotent', sig, 'second application changes the text at %d: %r -> %r; options %r' % (i, out[max(0, i - 20):i + 20], again[max(0, i - 20):i + 20], opts))
        except Exception as e:
            res.failures.append(exc_failure('raises-second', e))
    # non-triviality: a target and a look-alike non-target
    has_target = False
    lookalike = False
    for tt, v in toks:
        if opts.get('strip_comments') and tt in T.Comment and tt not in HINTS:
            has_target = True
        if opts.get('strip_comments') and (tt in HINTS or (tt in T.String or tt is T.Name) and ('--' in v or '/*' in v)):
            lookalike = True
        if opts.get('keyword_case') and tt in T.Keyword:
            has_target = True
        if opts.get('identifier_case') and tt is T.Name:
            has_target = True
        if (opts.get('keyword_case') or opts.get('identifier_case')) and (tt in T.String or tt in T.Comment or (tt is T.Name and v[:1] == '`')) and any(
                w in v.lower() for w in ('select', 'end', 'from')):
            lookalike = True
        if opts.get('identifier_case') and tt is T.String.Symbol and v[:1] == '"':
            lookalike = True
        if n and tt is T.String.Single and len(v) - 2 > n:
            has_target = True
        if n and (tt is T.String.Single and len(v) - 2 in (n, n - 1) or tt is T.String.Symbol and len(v) - 2 > n):
            lookalike = True
    res.nontrivial = has_target and lookalike
    res.labels = ['opt:' + k for k in opts] + ['alone'] * alone + ['target'] * has_target + ['lookalike'] * lookalike + \
        ['hazard:' + HAZ_T] * bool(haz_t) + ['hazard:' + HAZ_Q] * bool(_fmt.quote_hazard(clean)) + ['sanitized-quote-lexeme'] * bool(case.get('sanitized'))
    res.sample = {'text': text[:300], 'options': opts, 'output': out[:200]}
    return res


@st.composite
def _options(draw, avoid_trunc_hazard):
    which = draw(st.integers(0, 7))
    opts = {}
    if which in (0, 4):
        opts['strip_comments'] = True
    if which in (1, 5):
        opts['keyword_case'] = draw(st.sampled_from(O.CASES))
    if which in (2, 6):
        opts['identifier_case'] = draw(st.sampled_from(O.CASES))
    if which in (3, 7):
        opts['truncate_strings'] = draw(st.integers(2, 12))
        if draw(st.booleans()):
            opts['truncate_char'] = draw(st.sampled_from(['[...]', '…', '..', '~', '']))
    if which >= 4:
        if draw(st.integers(0, 3)) > 0:
            lay = draw(O.layout_options())
            if not lay:
                lay = {draw(st.sampled_from(O.LAYOUT_BOOL)): True}
            opts.update(lay)
        else:
            extra = draw(O.targeted_options())
            extra.pop('output_format', None)
            for k, v in extra.items():
                opts.setdefault(k, v)
            if 'truncate_strings' not in opts:
                opts.pop('truncate_char', None)
    return opts


def _fix_trunc(case):
    """main search: move N so that no literal is cut inside a '' pair (construction); drop the option if impossible"""
    opts = case['opts']
    n = opts.get('truncate_strings')
    if not n:
        return case
    text = G.assemble(case['lex'])[0]
    lits = [v for tt, v in lexer.tokenize(text) if tt is T.String.Single]
    for cand in range(n, n + 6):
        if not any(trunc_hazard(v, cand) for v in lits):
            opts['truncate_strings'] = cand
            return case
    opts.pop('truncate_strings')
    opts.pop('truncate_char', None)
    case['dropped_truncate'] = 1
    return case


def _main(tier):
    ex = excluded_hazards(ID)
    s = _fmt.script_cases(_options(HAZ_T in ex), sanitize=HAZ_Q in ex, max_statements=2, comments=20)
    if HAZ_T in ex:
        s = s.map(_fix_trunc)
    return s


def _hazard(tier):
    return _fmt.script_cases(_options(False), sanitize=False, max_statements=2, comments=25)


# ------------------------------------------------------------------------------------------------------------
# written-literals leg: the expectation comes from the literals as WRITTEN by the generator, not from the
# library's own lexing of the input (a lexer change that moves a literal's borders would otherwise move the
# expectation with it).  Literals with a type prefix (N'..', E'..', X'..', B'..', U&'..', _utf8'..') keep the prefix.
PREFIXES = ['', '', '', 'N', 'n', 'E', 'e', 'X', 'x', 'B', 'b', 'U&', '_utf8', '_latin1', 'R', 'q']
_wl_body = st.text(alphabet='abcXYZ 0123456789;,()-*/"`$#@!%_é:?[]\n\t', max_size=16)
WL_TEMPLATES = ['select {0} from t', 'select {0}, {1} from t where c = {2}', 'insert into t values ({0}, 1, {1})', 'select f({0},{1}) x, {2} as y',
                'update t set a = {0} where b in ({1}, {2})', 'select {0}\n  , {1}\nfrom t -- c\nwhere x like {2}', 'select {0};\nselect {1}, {2}']


@st.composite
def _written_literals(draw):
    n = draw(st.integers(2, 12))        # validate_options: truncate_strings > 1
    mark = draw(st.sampled_from([None, None, '[...]', '…', '..', '~', '']))
    lits = []
    for _ in range(3):
        body = draw(st.one_of(_wl_body, st.integers(max(0, n - 2), n + 2).flatmap(lambda k: st.text(alphabet='abc d', min_size=k, max_size=k))))
        lits.append((draw(st.sampled_from(PREFIXES)), body))
    return {'n': n, 'mark': mark, 'lits': lits, 'tpl': draw(st.sampled_from(WL_TEMPLATES))}


def check_written(case):
    n, mark, lits = case['n'], case['mark'], case['lits']
    opts = {'truncate_strings': n}
    if mark is not None:
        opts['truncate_char'] = mark
    m = '[...]' if mark is None else mark
    text = case['tpl'].format(*["%s'%s'" % l for l in lits])
    want = case['tpl'].format(*["%s'%s'" % (p, b if len(b) <= n else b[:n] + m) for p, b in lits])
    res = Result(key=[text, n, mark])
    try:
        out = sqlparse.format(text, **opts)
    except Exception as e:
        res.failures.append(exc_failure('raises', e))
        return res
    if out != want:
        used = [l for l in lits if "%s'%s'" % l in text]
        res.fail('written-literal', 'prefixed' if any(p for p, b in used if len(b) > n) else 'plain',
                 'format(%r, truncate_strings=%d%s) = %r, expected %r' % (text[:160], n, '' if mark is None else ', truncate_char=%r' % mark, out[:160], want[:160]))
    cut = [l for l in lits if "%s'%s'" % l in text and len(l[1]) > n]
    near = [l for l in lits if "%s'%s'" % l in text and len(l[1]) in (n, n - 1, n + 1)]
    res.nontrivial = bool(cut) and bool(near or any(p for p, b in cut))
    res.labels = ['cut'] * bool(cut) + ['boundary-length'] * bool(near) + ['prefix:' + p for p, b in cut if p]
    res.sample = {'text': text[:200], 'options': opts, 'output': out[:200]}
    return res


LEGS = [Leg('main', check=check, strategy=_main, examples={'quick': 6000, 'thorough': 120000}),
        Leg('hazard', check=check, strategy=_hazard, examples={'quick': 1500, 'thorough': 25000}, hazard_leg=True),
        Leg('written-literals', check=check_written, strategy=lambda tier: _written_literals(), examples={'quick': 4000, 'thorough': 100000})]
