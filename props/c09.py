"""C09 Bracketed and block groups are exactly the properly matched pairs (DESIGN.md section 6, C09)."""
from hypothesis import strategies as st

import sqlparse
from sqlparse import sql, tokens as T

from gen import soup, sources
from oracles import matcher
from oracles.treecheck import Walk
from vlib.core import Leg, Result, exc_failure

ID = 'C09'
RULE = ('cases: random balanced forests over ( ) [ ] CASE END IF "END IF" FOR FOREACH "END LOOP" BEGIN plus filler tokens, perturbed by up to 3 '
        'delete/duplicate/transpose/insert edits (unmatched and crossing pairs), plus all other text sources; per statement the set of '
        '(class, first leaf, last leaf) of the Parenthesis/SquareBrackets/Case/If/For/Begin nodes (last leaf after dropping attached trailing '
        'comments/whitespace) must equal what a textbook hierarchical stack matcher predicts from the statement\'s own leaves, and each node must '
        'start with its opener and end with its closer. leg deep: one pair of every kind inside d nested groups of every kind, d in {3..250} incl. 99-102, enumerated completely (inputs the recursion guard rejects with SQLParseError are counted, not compared). non-trivial: >=2 matched pairs of >=2 kinds and >=1 unmatched opener/closer; distinct by text')
ASSUMPTIONS = ['keyword delimiters compare case-insensitively and modulo the whitespace inside multi-word keywords (END  LOOP is END LOOP)']

CLASSES = {'SquareBrackets': sql.SquareBrackets, 'Parenthesis': sql.Parenthesis, 'Case': sql.Case, 'If': sql.If, 'For': sql.For, 'Begin': sql.Begin}
PATS = {k: (op, cl) for k, op, cl in matcher.KINDS}


def check(case):
    text = case['text']
    res = Result(key=text)
    try:
        stmts = sqlparse.parse(text)
    except Exception as e:
        res.failures.append(exc_failure('raises', e))
        return res
    pairs = 0
    kinds = set()
    unmatched = 0
    for stmt in stmts:
        w = Walk(stmt)
        leaves = [(l.ttype, l.value) for l in w.leaves]
        idx = {id(l): i for i, l in enumerate(w.leaves)}
        exp = matcher.predict(leaves)
        act = set()
        for g in w.groups:
            name = type(g).__name__
            if name not in CLASSES or type(g) is not CLASSES[name]:
                continue
            a, b = w.first_leaf[id(g)], w.last_leaf[id(g)]
            if b < a:
                res.fail('empty-node', name, '')
                continue
            first = w.leaves[a]
            op, cl = PATS[name]
            if not matcher._m((first.ttype, first.value), op):
                res.fail('starts-with-opener', name, '%s node starts with %r; text %r' % (name, first.value, text[:120]))
            while b > a and (w.leaves[b].is_whitespace or w.leaves[b].ttype in T.Comment):
                b -= 1
            last = w.leaves[b]
            if not matcher._m((last.ttype, last.value), cl):
                res.fail('ends-with-closer', name, '%s node ends with %r; text %r' % (name, last.value, text[:120]))
            act.add((name, a, b))
            # child level: the node's first child is the opening token itself; its last child, ignoring comments (and
            # whitespace) attached after it, is the closing token itself
            kids = list(g.tokens)
            while len(kids) > 1 and (kids[-1].is_whitespace or isinstance(kids[-1], sql.Comment) or (kids[-1].ttype is not None and kids[-1].ttype in T.Comment)):
                kids.pop()
            # the delimiter may sit inside a nested node of one of the six kinds that shares it (CASE a BEGIN x END:
            # the END closes both, by the matcher's own semantics); it may not sit inside any other kind of child
            fk = kids[0]
            while fk.is_group and type(fk).__name__ in CLASSES and type(fk) is not type(g):
                fk = fk.tokens[0]
            lk = kids[-1]
            while lk.is_group and type(lk).__name__ in CLASSES and type(lk) is not type(g):
                sub = list(lk.tokens)
                while len(sub) > 1 and (sub[-1].is_whitespace or isinstance(sub[-1], sql.Comment) or (sub[-1].ttype is not None and sub[-1].ttype in T.Comment)):
                    sub.pop()
                lk = sub[-1]
            if fk.is_group or not matcher._m((fk.ttype, fk.value), op):
                res.fail('delimiter-absorbed', name + ':open', '%s node: first child is %s %r; text %r' % (name, type(kids[0]).__name__, str(kids[0])[:30], text[:120]))
            elif lk.is_group or not matcher._m((lk.ttype, lk.value), cl):
                res.fail('delimiter-absorbed', name + ':close', '%s node: last child is %s %r; text %r' % (name, type(kids[-1]).__name__, str(kids[-1])[:30], text[:120]))
        if exp != act:
            miss = sorted(exp - act)
            extra = sorted(act - exp)
            sig = ','.join(sorted({x[0] for x in miss})) + '|' + ','.join(sorted({x[0] for x in extra}))
            res.fail('pairs', sig, 'missing %r extra %r; text %r' % (miss[:3], extra[:3], text[:160]))
        pairs += len(exp)
        kinds |= {x[0] for x in exp}
        covered = set()
        for _, a, b in exp:
            covered.add(a)
            covered.add(b)
        for i, tok in enumerate(leaves):
            if i not in covered and any(matcher._m(tok, op) or matcher._m(tok, cl) for _, op, cl in matcher.KINDS):
                unmatched += 1
    res.nontrivial = pairs >= 2 and len(kinds) >= 2 and unmatched >= 1
    res.labels = ['pairs>=2'] * (pairs >= 2) + ['kinds>=2'] * (len(kinds) >= 2) + ['unmatched>=1'] * (unmatched >= 1) + ['kind:' + k for k in kinds]
    res.sample = {'text': text[:300], 'pairs': pairs, 'unmatched': unmatched}
    return res


def _strategy(tier):
    return st.one_of(soup.structured_text(), soup.structured_text(), soup.structured_text(), soup.structured_text(),
                     sources.any_text(tier, weights=(1, 2, 1, 1, 1, 2, 1, 1, 1, 2))).map(lambda t: {'text': t})


INNER = {'case': 'case when a then b end', 'if': 'if a then b end if', 'for': 'for i in x loop y end loop', 'begin': 'begin x end', 'paren': '(x)', 'brack': 'a[1]',
         'mixed': 'case when (a[1]) then begin x end end'}
OUTER = {'paren': ('(', ')'), 'brack': ('a[', ']'), 'case': ('case when a then ', ' end'), 'begin': ('begin ', ' end'), 'if': ('if a then ', ' end if'),
         'paren-case': ('(case when a then ', ' end)'), 'call': ('f(', ')')}
DEPTHS = {'quick': [3, 30, 60, 99, 100, 101, 102, 120, 150, 250], 'thorough': [3, 10, 30, 60, 90, 99, 100, 101, 102, 110, 127, 128, 129, 150, 200, 250, 255, 256, 257, 300]}


def _deep(tier):
    """a matched pair of every kind inside d nested groups of every other kind (depth is part of 'every str')"""
    for o, (op, cl) in sorted(OUTER.items()):
        for i, inner in sorted(INNER.items()):
            for d in DEPTHS[tier]:
                yield {'text': 'select ' + op * d + inner + cl * d + ' from t'}
                yield {'text': op * d + inner + ' ; ' + inner + cl * d}


def check_deep(case):
    try:
        sqlparse.parse(case['text'])
    except sqlparse.exceptions.SQLParseError:
        # too deep for the interpreter's recursion limit: reported cleanly (C15), nothing to compare
        res = Result(key=case['text'][:200] + str(len(case['text'])))
        res.labels = ['too-deep']
        return res
    except Exception:
        pass
    res = check(case)
    res.key = case['text'][:200] + str(len(case['text']))
    res.nontrivial = True
    return res


LEGS = [Leg('deep', check=check_deep, enumerate=_deep, exhaustive=True),
        Leg('text', check=check, strategy=_strategy, examples={'quick': 15000, 'thorough': 300000})]
