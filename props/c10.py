"""C10 Requested layout normal forms are actually achieved (DESIGN.md section 6, C10)."""
from hypothesis import strategies as st

import sqlparse
from sqlparse import lexer, tokens as T

from gen import grammar as G, options as O
from oracles import lexmatch
from props import _fmt
from vlib.core import Leg, Result, exc_failure, excluded_hazards

ID = 'C10'
RULE = ('cases: grammar scripts (1-2 statements, comments at any gap, multi-word keywords with single inner blanks) x {strip_whitespace; '
        'use_space_around_operators (alone and with reindent); reindent x every subset of indent_width/indent_tabs/indent_after_first/indent_columns/'
        'wrap_after/comma_first/compact}; the gaps between the words the generator wrote are located in the output by lexmatch, so "outside comments and '
        'literals" is exact. NF1: no leading/trailing blanks, every gap <=1 character, nothing after ( or before ) unless next to a comment, fixed point. '
        'NF2: every Operator/Comparison token of the output has whitespace on both sides, fixed point. NF3: every written clause keyword (FROM, JOINs, WHERE, '
        'AND/OR outside BETWEEN, GROUP BY, ORDER BY, HAVING, LIMIT, UNION, EXCEPT, SET) is first on its line, no gap has a blank before a newline. '
        'non-trivial: NF1: a whitespace run >=2 and a blank inside parentheses in the input; NF2: >=2 operators with mixed spacing; NF3: nesting >=2 and >=3 clause keywords; '
        'distinct by (script text, options)')
ASSUMPTIONS = ['whitespace inside a multi-word keyword token is not a gap (the filters cannot touch it); the generator writes single blanks there',
               'a line comment owns its line end, so a word following it counts as starting a new line']

HAZ_Q = 'quote_in_comment_or_backtick'
HAZ_WSCOMMA = 'whitespace_run_before_comma'
HAZ_CMNL = 'newline_after_comment_in_gap'
HAZ_OPNL = 'operator_before_newline'
HAZ_CMOP = 'comment_line_end_before_operator'


def _match(res, words, out, opts):
    try:
        return lexmatch.match(words, out)
    except lexmatch.Mismatch as m:
        sig = m.kind
        if m.kind in ('str', 'qname') and lexmatch.norm_comment(m.expected) != m.expected and \
                m.found.startswith(lexmatch.norm_comment(m.expected)[:len(m.found)]):
            sig = m.kind + '-eol-normalised'
        res.fail('significant-tokens', sig, 'word %d: %s; options %r' % (m.index, m.why, opts))
        return None, None


def case_parts(case):
    text, clean, spans, marks = G.assemble(case['lex'])
    return text, clean, marks, G.words_of(clean)


def inner_gaps(text, clean):
    """lexeme indices whose preceding gap lies inside ONE lexer token of the input (e.g. NOT + NULL written as two
    words is the single keyword token 'NOT  NULL'): that whitespace is inside a token, not between tokens"""
    spans = G.assemble(clean)[2] if False else None
    out = set()
    pos = 0
    bounds = []
    for tt, v in lexer.tokenize(text):
        if tt not in T.Whitespace and any(c.isspace() for c in v) and tt not in T.Comment and tt not in T.String and tt not in T.Literal:
            bounds.append((pos, pos + len(v)))
        pos += len(v)
    return bounds


def check_nf1(case):
    text, clean, marks, words = case_parts(case)
    spans = G.assemble(case['lex'])[2]
    multi = inner_gaps(text, clean)
    opts = {'strip_whitespace': True}
    res = Result(key=text)
    try:
        out = sqlparse.format(text, **opts)
    except Exception as e:
        res.failures.append(exc_failure('raises', e))
        return res
    gaps, _ = _match(res, words, out, opts)
    hz = hazards_nf1(words)
    if any(words[i][0] == 'comment' and words[i - 1][0] == 'comment' for i in range(1, len(words))):
        hz.add(HAZ_CMNL)          # a comment cluster belongs to the same family: blanks next to comments are not normalised to a fixed point
    suffix = (':' + HAZ_CMNL) if HAZ_CMNL in hz else ''
    if gaps is not None:
        if gaps[0] != '' or gaps[-1] != '':
            res.fail('nf1-edges', 'lead' if gaps[0] else 'trail', 'output starts/ends with whitespace: %r ... %r' % (out[:20], out[-20:]))
        for i in range(1, len(words)):
            g = gaps[i]
            a, b = words[i - 1], words[i]
            if a[2] != b[2] and any(lo < spans[b[2]][0] <= hi and lo <= spans[a[2]][1] - 1 for lo, hi in multi):
                continue        # the lexer reads the two written words as one multi-word token
            near_comment = a[0] == 'comment' or b[0] == 'comment'
            # "except next to a comment": the parenthesis touches a comment (a comment attached right after ')' or before '(')
            paren_touches_comment = near_comment or (b[0] == 'rp' and i + 1 < len(words) and words[i + 1][0] == 'comment') or \
                (a[0] == 'lp' and i >= 2 and words[i - 2][0] == 'comment')
            if len(g) > 1:
                res.fail('nf1-run', ('comment' if near_comment else a[0] + '|' + b[0]) + suffix,
                         'whitespace run %r between %r and %r; input %r' % (g, a[1][:20], b[1][:20], text[:200]))
                break
            if g and not paren_touches_comment and (a[0] == 'lp' or b[0] == 'rp'):
                res.fail('nf1-paren', ('after(' if a[0] == 'lp' else 'before)') + suffix, 'blank %r between %r and %r; input %r' % (g, a[1], b[1][:20], text[:200]))
                break
    if not res.failures:
        try:
            again = sqlparse.format(out, **opts)
            if again != out:
                i = next((i for i, (x, y) in enumerate(zip(again, out)) if x != y), min(len(again), len(out)))
                res.fail('nf1-fixed-point', 'changed' + suffix, 'second application differs at %d: %r -> %r' % (i, out[max(0, i - 15):i + 15], again[max(0, i - 15):i + 15]))
        except Exception as e:
            res.failures.append(exc_failure('raises-second', e))
    runs = any(len(w[3]) >= 2 for w in words[1:])
    inparen = any((words[i - 1][0] == 'lp' or words[i][0] == 'rp') and words[i][3] != '' for i in range(1, len(words)))
    res.nontrivial = runs and inparen
    res.labels = ['nf1', 'ws-run'] * 1 if runs else ['nf1']
    res.labels += ['blank-in-paren'] * inparen + ['hazard:' + h for h in hz] + ['comment'] * any(w[0] == 'comment' for w in words) + ['comment-line-ends-removed'] * bool(case.get('comment_line_ends_removed'))
    res.sample = {'text': text[:200], 'options': opts, 'output': out[:200]}
    return res


def hazards_nf1(words):
    hz = set()
    for i in range(1, len(words)):
        a, b = words[i - 1], words[i]
        g = b[3]
        if b[1] == ',' and len(g) >= 2:
            hz.add(HAZ_WSCOMMA)
        if a[0] == 'comment' and (a[1][-1:] in '\r\n' or '\n' in g or '\r' in g):
            hz.add(HAZ_CMNL)
        if b[0] == 'comment' and ('\n' in g or '\r' in g):
            hz.add(HAZ_CMNL)
    return hz


def check_nf2(case):
    text, clean, marks, words = case_parts(case)
    opts = dict(case['opts'])
    res = Result(key=[text, sorted(opts.items())])
    try:
        out = sqlparse.format(text, **opts)
    except Exception as e:
        res.failures.append(exc_failure('raises', e))
        return res
    _match(res, words, out, opts)
    toks = list(lexer.tokenize(out))
    nops = 0
    for i, (tt, v) in enumerate(toks):
        if tt in T.Operator:
            nops += 1
            left = toks[i - 1] if i else None
            right = toks[i + 1] if i + 1 < len(toks) else None
            for side, nb in (('left', left), ('right', right)):
                if nb is not None and nb[0] not in T.Whitespace:
                    res.fail('nf2-space', side + ':' + ('comment' if nb[0] in T.Comment else str(nb[0]).split('.')[-1]),
                             'operator %r has no whitespace on its %s (neighbour %r); input %r' % (v, side, nb[1][:20], text[:200]))
    hz_opnl = any(words[i][0] in ('op', 'cmp', 'star') and ('\n' in words[i + 1][3] or '\r' in words[i + 1][3]) for i in range(len(words) - 1))
    hz_cmop = any(words[i][0] in ('op', 'cmp', 'star') and words[i - 1][0] == 'comment' and
                  (words[i - 1][1][-1:] in '\r\n' or '\n' in words[i][3] or '\r' in words[i][3]) for i in range(1, len(words)))
    if list(opts) == ['use_space_around_operators'] and not res.failures:
        try:
            again = sqlparse.format(out, **opts)
            if again != out:
                i = next((i for i, (x, y) in enumerate(zip(again, out)) if x != y), min(len(again), len(out)))
                res.fail('nf2-fixed-point', 'changed' + (':' + HAZ_CMOP if hz_cmop else ''),
                         'second application differs at %d: %r -> %r' % (i, out[max(0, i - 15):i + 15], again[max(0, i - 15):i + 15]))
        except Exception as e:
            res.failures.append(exc_failure('raises-second', e))
    tight = [w for i, w in enumerate(words) if w[0] in ('op', 'cmp') and (w[3] == '' or (i + 1 < len(words) and words[i + 1][3] == ''))]
    spaced = [w for w in words if w[0] in ('op', 'cmp') and w[3] != '']
    res.nontrivial = nops >= 2 and bool(tight) and bool(spaced)
    res.labels = ['nf2'] + ['opt:' + k for k in opts] + ['tight-operator'] * bool(tight) + ['operator-before-newline'] * hz_opnl + ['hazard:' + HAZ_CMOP] * hz_cmop
    res.sample = {'text': text[:200], 'options': opts, 'output': out[:200]}
    return res


def check_nf3(case):
    text, clean, marks, words = case_parts(case)
    opts = dict(case['opts'])
    res = Result(key=[text, sorted(opts.items())])
    try:
        out = sqlparse.format(text, **opts)
    except Exception as e:
        res.failures.append(exc_failure('raises', e))
        return res
    gaps, ends = _match(res, words, out, opts)
    stmt_first = {m['s'] for m in marks if m['k'] == 'stmt'}
    nclause = 0
    if gaps is not None:
        for i, w in enumerate(words):
            l = clean[w[2]]
            if l[0] == 'kw' and l[3].get('clause') and (i == 0 or words[i - 1][2] != w[2]):
                nclause += 1
                if w[2] in stmt_first:
                    continue
                g = gaps[i]
                prev = words[i - 1] if i else None
                if '\n' in g or (prev and prev[0] == 'comment' and prev[1][-1:] in '\r\n'):
                    continue
                res.fail('nf3-own-line', l[3].get('canon', l[1]).upper().split()[-1] + (':after-comment' if prev and prev[0] == 'comment' else ''),
                         'clause keyword %r does not start a line (gap %r after %r); options %r; input %r' % (w[1], g, prev[1][:20] if prev else None, opts, text[:200]))
                break
        for i, g in enumerate(gaps):
            if ' \n' in g or '\t\n' in g or (i == len(gaps) - 1 and g != '' and g.strip('\n') != ''):
                res.fail('nf3-trailing-blank', 'line', 'gap %r before %r has a blank at a line end; options %r' % (g, words[i][1][:20] if i < len(words) else '<end>', opts))
                break
        else:
            # every line of the output, except line ends that lie inside a literal, quoted name or comment
            protected = []
            for (kind, wtext, *_), end in zip(words, ends):
                if kind in ('str', 'qname', 'comment'):
                    protected.append((end - len(wtext) - 2, end))
            pos = 0
            for line in out.split('\n'):
                eol = pos + len(line)
                if line[-1:] in (' ', '\t') and not any(a <= eol <= b for a, b in protected):
                    res.fail('nf3-trailing-blank', 'line', 'output line %r ends in a blank; options %r' % (line[-30:], opts))
                    break
                pos = eol + 1
    depth = 0
    maxdepth = 0
    for l in clean:
        if l[0] == 'lp':
            depth += 1
            maxdepth = max(maxdepth, depth)
        elif l[0] == 'rp':
            depth -= 1
    res.nontrivial = maxdepth >= 2 and nclause >= 3
    res.labels = ['nf3'] + ['opt:' + k for k in opts] + ['nest>=2'] * (maxdepth >= 2) + ['clauses>=3'] * (nclause >= 3) + \
        ['hazard:' + HAZ_Q] * bool(_fmt.quote_hazard(clean))
    res.sample = {'text': text[:200], 'options': opts, 'output': out[:200]}
    return res


def no_comment_line_ends(case):
    """main search of NF1/NF2 behind F8b/F9b: no line end next to a comment (construction): line comments become block
    comments and the gaps around comments lose their line breaks"""
    laid = [l for l in case['lex'] if not (l[0] == 'comment' and l[3].get('cluster'))]     # no comment clusters either
    case['lex'] = laid
    n = 0
    prev_comment = False
    for l in laid:
        if l[0] == 'mark':
            continue
        if l[0] == 'comment':
            if l[1][-1:] in '\r\n' or l[1][:2] != '/*':
                body = l[1].rstrip('\r\n').replace('*/', '* /')
                l[1] = '/*' + body + '*/'
                n += 1
            g = l[3].get('gap', '')
            if '\n' in g or '\r' in g:
                l[3]['gap'] = g.replace('\r', ' ').replace('\n', ' ')
                n += 1
            prev_comment = True
            continue
        if prev_comment:
            g = l[3].get('gap', '')
            if '\n' in g or '\r' in g:
                l[3]['gap'] = g.replace('\r', ' ').replace('\n', ' ')
                n += 1
        prev_comment = False
    case['comment_line_ends_removed'] = n
    return case


REINDENT_SUB = ['indent_width', 'indent_tabs', 'indent_after_first', 'indent_columns', 'wrap_after', 'comma_first', 'compact']


def _scripts(sanitize, comments=10):
    def fix(c):
        return c
    return G.script(1, 2, comments=comments, inner=False)


def _nf1(tier):
    ex = excluded_hazards(ID)
    s = _fmt.script_cases(st.just({}), sanitize=HAZ_Q in ex, max_statements=2, comments=10, inner=False)
    return s.map(no_comment_line_ends) if HAZ_CMNL in ex else s


def _nf1_hazard(tier):
    return _fmt.script_cases(st.just({}), sanitize=False, max_statements=2, comments=25, inner=False)


def _nf2(tier):
    san = HAZ_Q in excluded_hazards(ID)
    o = st.one_of(st.just({'use_space_around_operators': True}), st.just({'use_space_around_operators': True}),
                  O.layout_options(require=['use_space_around_operators'], allow=['reindent', 'strip_whitespace'] + REINDENT_SUB))
    s = _fmt.script_cases(o, sanitize=san, max_statements=2, comments=8, inner=False)
    return s.map(no_comment_line_ends) if HAZ_CMOP in excluded_hazards(ID) else s


def _nf2_hazard(tier):
    return _fmt.script_cases(st.just({'use_space_around_operators': True}), sanitize=False, max_statements=2, comments=25, inner=False)


def _nf3(tier):
    san = HAZ_Q in excluded_hazards(ID)
    return _fmt.script_cases(O.layout_options(require=['reindent'], allow=REINDENT_SUB), sanitize=san, max_statements=2, comments=8, inner=True)


def _nf3_hazard(tier):
    return _fmt.script_cases(O.layout_options(require=['reindent'], allow=REINDENT_SUB), sanitize=False, max_statements=2, comments=25, inner=True)


LEGS = [Leg('nf1', check=check_nf1, strategy=_nf1, examples={'quick': 2500, 'thorough': 50000}),
        Leg('nf2', check=check_nf2, strategy=_nf2, examples={'quick': 2500, 'thorough': 50000}),
        Leg('nf1-hazard', check=check_nf1, strategy=_nf1_hazard, examples={'quick': 500, 'thorough': 10000}, hazard_leg=True),
        Leg('nf2-hazard', check=check_nf2, strategy=_nf2_hazard, examples={'quick': 500, 'thorough': 10000}, hazard_leg=True),
        Leg('nf3', check=check_nf3, strategy=_nf3, examples={'quick': 2500, 'thorough': 50000}),
        Leg('nf3-hazard', check=check_nf3, strategy=_nf3_hazard, examples={'quick': 600, 'thorough': 10000}, hazard_leg=True)]
