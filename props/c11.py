"""C11 Parsing is insensitive to inter-token whitespace and keyword letter case (DESIGN.md section 6, C11)."""
from hypothesis import strategies as st

import sqlparse
from sqlparse import tokens as T

from gen import grammar as G, proc
from oracles.treecheck import shape
from vlib.core import Leg, Result, exc_failure

ID = 'C11'
RULE = ('cases: lexeme lists of grammar scripts (1-3 statements) and light procedural scripts; rendering A = single blanks, upper-case keywords; rendering B = the '
        'same lexemes with the same tight/spaced positions, every blank replaced by a drawn non-empty whitespace string (blanks, tabs, LF, CRLF, runs; also inside '
        'multi-word keywords) and every keyword word re-cased; oracle: same number of statements, same split pieces after whitespace/case canonicalisation, same '
        'get_type(), same tree shape (nested class names, whitespace leaves dropped, leaves equal by type and by value modulo keyword case and inner whitespace). '
        'non-trivial: B differs from A in >=1 multi-word keyword spelling or >=1 line break for a blank, and the tree has >=3 group classes; distinct by rendering B')
ASSUMPTIONS = ['comments are not inserted (a line comment makes the following line break significant)',
               'both renderings keep the generator\'s tight/spaced decision per gap: only non-empty whitespace is replaced by other non-empty whitespace']


def canon_of(laid):
    out = []
    for l in laid:
        if l[0] == 'mark':
            out.append(l)
            continue
        meta = dict(l[3])
        text = l[1]
        if 'canon' in meta:
            text = meta['canon'].upper() if l[0] in ('kw', 'cmp') else meta['canon']
        if meta.get('gap'):
            meta['gap'] = ' '
        out.append([l[0], text, l[2], meta])
    return out


def norm_leaf(tok):
    if tok.is_keyword or tok.ttype is T.Operator.Comparison or (tok.ttype is not None and tok.ttype in T.Name.Builtin):
        return ' '.join(tok.value.upper().split())
    if tok.ttype is not None and tok.ttype in T.Name and tok.value.upper() in G.ALL_WORDS:
        # a keyword written directly before '(' is a name for the lexer (documented rule); generated identifiers are never dictionary words
        return tok.value.upper()
    return tok.value


def canon_piece(p):
    return ' '.join(p.upper().split())


def classes_of(sh, acc):
    if isinstance(sh[1], tuple):
        acc.add(sh[0])
        for k in sh[1]:
            classes_of(k, acc)


def first_diff(a, b, path=''):
    if a == b:
        return None
    if isinstance(a[1], tuple) and isinstance(b[1], tuple) and a[0] == b[0]:
        for i, (x, y) in enumerate(zip(a[1], b[1])):
            d = first_diff(x, y, path + '/' + a[0])
            if d:
                return d
        return '%s/%s: %d vs %d children' % (path, a[0], len(a[1]), len(b[1]))
    return '%s: %r vs %r' % (path, (a[0], a[1] if not isinstance(a[1], tuple) else '...'), (b[0], b[1] if not isinstance(b[1], tuple) else '...'))


def check(case):
    laid_b = case['lex']
    laid_a = canon_of(laid_b)
    text_a, clean_a, _, marks = G.assemble(laid_a)
    text_b, clean_b, _, _ = G.assemble(laid_b)
    res = Result(key=text_b)
    try:
        pa, pb = sqlparse.parse(text_a), sqlparse.parse(text_b)
        sa, sb = sqlparse.split(text_a), sqlparse.split(text_b)
    except Exception as e:
        res.failures.append(exc_failure('raises', e))
        return res
    classes = set()
    if len(pa) != len(pb) or len(sa) != len(sb):
        res.fail('statement-count', '%d/%d' % (len(pa), len(pb)), 'A gives %d statements, B gives %d; A=%r B=%r' % (len(pa), len(pb), text_a[:200], text_b[:200]))
    else:
        if [canon_piece(x) for x in sa] != [canon_piece(x) for x in sb]:
            res.fail('split-pieces', '', 'pieces differ beyond whitespace/case; B=%r' % text_b[:200])
        for i, (x, y) in enumerate(zip(pa, pb)):
            ta, tb = x.get_type(), y.get_type()
            if ta != tb:
                res.fail('get_type', '%s/%s' % (ta, tb), 'statement %d: A %r, B %r; B=%r' % (i, ta, tb, str(y)[:200]))
            sha, shb = shape(x, norm=norm_leaf), shape(y, norm=norm_leaf)
            classes_of(sha, classes)
            if sha != shb:
                d = first_diff(sha, shb)
                kind = d.split(':')[0].rsplit('/', 1)[-1] if d else '?'
                res.fail('tree-shape', kind, 'statement %d: %s; A=%r B=%r' % (i, d, str(x)[:160], str(y)[:160]))
    respelled = any(len(l[1].split()) > 1 and ' '.join(l[1].split()) != l[1] for l in clean_b if l[0] in ('kw', 'cmp'))
    newline = any('\n' in l[3].get('gap', '') or '\r' in l[3].get('gap', '') for l in clean_b)
    recased = any(l[0] == 'kw' and l[1] != l[1].upper() for l in clean_b)
    res.nontrivial = (respelled or newline) and len(classes) >= 3
    res.labels = ['multiword-respelled'] * respelled + ['newline-for-blank'] * newline + ['recased'] * recased + ['classes>=3'] * (len(classes) >= 3) + \
        ['procedural'] * any(m['info'].get('proc') for m in marks if m['k'] == 'stmt')
    res.sample = {'A': text_a[:200], 'B': text_b[:200]}
    return res


def _strategy(tier):
    return st.one_of(G.script(1, 3, comments=0, assign=True), G.script(2, 3, comments=0, go=True, assign=True), G.script(1, 2, comments=0, stmt=G.case_heavy_select()),
                     proc.script(depth=2, max_pre=1, max_post=2, comments=0), proc.script(depth=3, max_pre=0, max_post=2, comments=0)).map(lambda laid: {'lex': laid})


@st.composite
def long_list_cases(draw):
    """a long IN list / VALUES list (thousands of sibling tokens): the two renderings differ a lot in token count, since the
    lexer emits one token per whitespace character"""
    from gen.grammar import L, kw, W, P, seq, paren, comma_list
    n = draw(st.sampled_from([300, 1000, 1500, 2500, 3400, 5000]))
    kind = draw(st.sampled_from(['in', 'values', 'select-list']))
    wsx = draw(st.sampled_from(['  ', '\n', '\n   ', '\n           ', '\t\t', ' \n ']))
    items = [[L('num', str(i))] for i in range(n)]
    if kind == 'in':
        lex = W('stmt', seq(L('kw', 'WITH', False, lead_cte=True), L('name', 'stale'), kw('AS'), W('paren', paren([L('kw', 'SELECT', False, lead='SELECT'), L('num', '1')])),
                            L('kw', 'DELETE', False, lead='DELETE'), kw('FROM'), L('name', 't'), kw('WHERE'), L('name', 'id'), kw('IN'), W('paren', paren(comma_list(items)))), type='DELETE')
    elif kind == 'values':
        rows = [paren([L('num', str(i)), P(','), L('num', str(i * i))]) for i in range(n // 2)]
        lex = W('stmt', seq(L('kw', 'INSERT', False, lead='INSERT'), kw('INTO'), L('name', 'sq'), kw('VALUES'), comma_list(rows)), type='INSERT')
    else:
        lex = W('stmt', seq(L('kw', 'SELECT', False, lead='SELECT'), comma_list(items), kw('FROM'), L('name', 't')), type='SELECT')
    lex = lex + [list(G.SEMI)] + W('stmt', [L('kw', 'SELECT', False, lead='SELECT'), L('num', '1')], type='SELECT')
    laid = G.canonical(lex)
    for l in laid:
        if l[0] != 'mark' and l[3].get('gap'):
            l[3]['gap'] = wsx
        if l[0] == 'kw':
            l[3]['canon'] = l[1]
            l[1] = l[1].lower()
    return {'lex': laid}


LEGS = [Leg('long-lists', check=check, strategy=lambda tier: long_list_cases(), examples={'quick': 48, 'thorough': 400}),
        Leg('pairs', check=check, strategy=_strategy, examples={'quick': 8000, 'thorough': 150000})]
