"""C12 Identifier accessors return the written name, qualifier and alias (DESIGN.md section 6, C12)."""
from hypothesis import strategies as st

import sqlparse
from sqlparse import sql

from gen import chars, grammar as G
from oracles.treecheck import Walk
from vlib.core import Leg, Result, exc_failure, excluded_hazards

ID = 'C12'
RULE = ('cases: object reference = name x quoting (plain / "..." / `...`; quoted bodies over the full character set minus the quote and backslash, non-empty; backtick names also with doubled backticks at the start, inside, at the end) x '
        'optional qualifier (any quoting; written qualifier.name without blanks) x optional alias (with/without AS, any quoting) x drawn whitespace around AS, alias '
        'and commas x context (select list, FROM list, JOIN, UPDATE target, INSERT INTO target, select list / FROM list of a subquery that is aliased with or without AS, joined, or an IN operand, select list of a CTE body) x 0-3 neighbour items on either side; oracle: the '
        'tree contains an Identifier spanning exactly the written reference whose get_real_name/get_parent_name/get_alias/get_name/has_alias equal what was written, '
        'quotes removed; re-rendering the same reference with other whitespace and other neighbours gives the same answers. non-trivial: >=2 of {qualifier, alias, '
        'quoting, non-ASCII, neighbours on both sides}; distinct by (reference text, context)')
ASSUMPTIONS = ['the dot of qualifier.name is written without blanks (the property\'s own form)',
               'INSERT INTO targets carry no alias (not SQL)']

HAZ = 'dollar_or_hash_in_name_after_dot'
# every character the lexer's whitespace rule (\s) accepts, not only blank/tab/line break: form feed, vertical tab, the
# separator controls, NEL, no-break space, ideographic space
WS = [' ', ' ', ' ', ' ', '  ', '\t', '\n', ' \n ', '\r\n', '\x0c', '\x0b', '\x1f', '\x85', '\xa0', '\u3000', ' \x0c', '\u2003\t']
CONTEXTS = ['select', 'from', 'join', 'update', 'insert', 'subselect', 'subselect', 'cte', 'subfrom']

_start = 'abcdfghijklmopqrstvwyzACDFGHIJKLMOPQRSTVWYZ_ÀÖÜéßàüЖ中'
_rest = 'abcxyzABC_0123456789éÜЖ$#'


def _plain(allow_dh):
    rest = _rest if allow_dh else _rest.replace('$', '').replace('#', '')
    return st.builds(lambda a, b: a + b, st.sampled_from(_start), st.text(alphabet=rest, max_size=6)).filter(G.is_plain_name)


def _quoted_body():
    return chars.body(8).map(lambda b: b.replace('\\', '').replace('"', '').replace('`', '')).filter(lambda b: b != '')


@st.composite
def name_part(draw, allow_dh=True):
    q = draw(st.sampled_from(['plain', 'plain', 'dq', 'bt']))
    if q == 'plain':
        n = draw(st.one_of(st.sampled_from(G.BASE_NAMES), _plain(allow_dh)))
        return {'q': q, 'text': n, 'name': n}
    b = draw(_quoted_body())
    if q == 'bt' and draw(st.integers(0, 3)) == 0:
        # a doubled backtick stands for the character itself (the lexer rule says so): at the start, inside, at the end, twice in a row
        b = draw(st.sampled_from(['``' + b, b + '``', b[:1] + '``' + b[1:], b[:1] + '````' + b[1:], '``', b + '````']))
    return {'q': q, 'text': ('"%s"' if q == 'dq' else '`%s`') % b, 'name': b}


@st.composite
def cases(draw, hazard):
    ctx = draw(st.sampled_from(CONTEXTS))
    qual = draw(st.one_of(st.none(), name_part()))
    name = draw(name_part(allow_dh=hazard or qual is None))
    alias = None
    as_ = False
    if ctx != 'insert' and draw(st.booleans()):
        alias = draw(name_part())
        as_ = draw(st.booleans())
    w = lambda: draw(st.sampled_from(WS))
    neighbours = lambda: [draw(st.sampled_from(['x1', 'y2', 'k.z', '"q"', 't3 AS a4', 'foo bar', '7', 'f(1)', 'foo  bar', 'orders   o', 'x1\n    y9', 'k.z \t zz', '"q"  qq', 'f(1)   ff', '7  sv'])) for _ in range(draw(st.integers(0, 3)))]
    renders = []
    for _ in range(2):
        ref = (qual['text'] + '.' if qual else '') + name['text']
        if alias:
            if as_:
                # quotes delimit: a quoted name / alias may abut AS ("s"."t"AS"o", price AS"Total")
                before = '' if name['q'] != 'plain' and draw(st.integers(0, 3)) == 0 else w()
                after = '' if alias['q'] != 'plain' and draw(st.integers(0, 2)) == 0 else w()
                ref += before + draw(st.sampled_from(['AS', 'as', 'As'])) + after + alias['text']
            else:
                ref += w() + alias['text']
        before, after = neighbours(), neighbours()
        items = before + [ref] + after
        parts = []
        for i, it in enumerate(items):
            if i:
                parts.append(draw(st.sampled_from([',', ', ', ' ,', ' , ', ',\n', '\n, '])))
            parts.append(it)
        # position of ref inside the joined list
        lst = ''.join(parts)
        off = len(''.join(parts[:2 * len(before)]))
        if ctx == 'select':
            head = 'SELECT' + w()
            text = head + lst + w() + 'FROM' + w() + 'tbl'
        elif ctx == 'from':
            head = 'SELECT * FROM' + w()
            text = head + lst + draw(st.sampled_from(['', w() + 'WHERE a = 1', w() + 'ORDER BY 1']))
        elif ctx == 'join':
            head = 'SELECT * FROM t0' + w() + draw(st.sampled_from(['JOIN', 'LEFT JOIN', 'inner join'])) + w()
            lst, off = ref, 0
            text = head + ref + w() + 'ON' + w() + 't0.a = 1'
        elif ctx == 'update':
            head = 'UPDATE' + w()
            lst, off = ref, 0
            text = head + ref + w() + 'SET' + w() + 'c = 1'
        elif ctx == 'insert':
            head = 'INSERT INTO' + w()
            lst, off = ref, 0
            text = head + ref + w() + draw(st.sampled_from(['VALUES (1)', 'SELECT 1', 'DEFAULT VALUES']))
        elif ctx == 'cte':
            head = 'WITH q AS (SELECT' + w()
            text = head + lst + w() + 'FROM' + w() + 't9)' + w() + 'SELECT * FROM q'
        elif ctx == 'subfrom':
            head = 'SELECT * FROM (SELECT * FROM' + w()
            text = head + lst + draw(st.sampled_from([') AS g', ') g', ') AS g WHERE 1 = 1']))
        else:
            # the enclosing subquery is aliased with or without AS, or is the operand of IN
            head = draw(st.sampled_from(['SELECT * FROM (SELECT', 'SELECT * FROM (SELECT', 'SELECT * FROM t0 JOIN (SELECT', 'SELECT 1 WHERE 2 IN (SELECT'])) + w()
            tail = [') sub', ') AS sub', ') as g WHERE 1 = 1'] if 'FROM (' in head else [') AS j ON j.a = 1', ') j ON 1 = 1'] if 'JOIN' in head else [')', ') AND 3 = 3']
            text = head + lst + w() + 'FROM' + w() + 't9' + draw(st.sampled_from(tail))
        start = len(head) + off
        renders.append({'text': text, 'start': start, 'end': start + len(ref), 'both_sides': bool(before and after)})
    return {'ctx': ctx, 'qual': qual, 'name': name, 'alias': alias, 'as': as_, 'renders': renders}


def spans_of(stmt):
    w = Walk(stmt)
    offs = [0]
    for l in w.leaves:
        offs.append(offs[-1] + len(l.value))
    out = []
    for g in w.groups:
        a, b = w.first_leaf[id(g)], w.last_leaf[id(g)]
        out.append((g, offs[a], offs[b + 1]))
    return out


def check(case):
    exp = {
        'get_real_name': case['name']['name'],
        'get_parent_name': case['qual']['name'] if case['qual'] else None,
        'get_alias': case['alias']['name'] if case['alias'] else None,
        'get_name': case['alias']['name'] if case['alias'] else case['name']['name'],
        'has_alias': case['alias'] is not None,
    }
    ref0 = case['renders'][0]
    res = Result(key=[ref0['text'][ref0['start']:ref0['end']], case['ctx']])
    hz = case['qual'] is not None and any(c in case['name']['text'] for c in '$#') and case['name']['q'] == 'plain'
    suffix = (':' + HAZ) if hz else ''
    for r in case['renders']:
        text = r['text']
        try:
            stmts = sqlparse.parse(text)
        except Exception as e:
            res.failures.append(exc_failure('raises', e))
            continue
        if len(stmts) != 1:
            res.fail('statement-count', str(len(stmts)), text[:120])
            continue
        found = [g for g, a, b in spans_of(stmts[0]) if isinstance(g, sql.Identifier) and a == r['start'] and b == r['end']]
        if not found:
            res.fail('no-identifier', case['ctx'] + suffix, 'no Identifier spans exactly %r in %r' % (text[r['start']:r['end']], text[:160]))
            continue
        node = found[0]
        for acc, want in exp.items():
            try:
                got = getattr(node, acc)()
            except Exception as e:
                res.failures.append(exc_failure('accessor-raises', e))
                continue
            if got != want:
                res.fail('accessor', acc + suffix, '%s() = %r, written %r; reference %r in %r' % (acc, got, want, text[r['start']:r['end']], text[:160]))
    feats = [case['qual'] is not None, case['alias'] is not None, case['name']['q'] != 'plain' or (case['qual'] or {}).get('q', 'plain') != 'plain',
             any(ord(c) > 127 for c in ref0['text'][ref0['start']:ref0['end']]), ref0['both_sides']]
    res.nontrivial = sum(feats) >= 2
    res.labels = ['ctx:' + case['ctx']] + ['qualified'] * feats[0] + ['alias'] * feats[1] + ['AS'] * bool(case['alias'] and case['as']) + ['quoted'] * feats[2] + \
        ['non-ascii'] * feats[3] + ['hazard:' + HAZ] * hz
    res.sample = {'text': ref0['text'][:200], 'expected': exp}
    return res


LEGS = [Leg('main', check=check, strategy=lambda tier: cases(HAZ not in excluded_hazards(ID)), examples={'quick': 10000, 'thorough': 200000})]
