"""C13 Clause nodes cover exactly the clause as written (DESIGN.md section 6, C13)."""
from hypothesis import strategies as st

import sqlparse
from sqlparse import sql

from gen import grammar as G
from oracles.treecheck import Walk
from vlib.core import Leg, Result, exc_failure, excluded_hazards

ID = 'C13'
RULE = ('cases: grammar statements (queries with every clause combination, set operations, subqueries in FROM/IN/EXISTS/scalar position, CTEs, DML, DDL) rendered with '
        'drawn whitespace and casing, single blanks inside multi-word keywords, no comments; the generator marks every WHERE clause, comma list, call, CASE, comparison '
        'and typed literal it writes. Oracle per mark, from character spans computed by an own tree walk: Where node from WHERE up to the written follower keyword / '
        'closing parenthesis / end of statement; one IdentifierList per list of >=2 items whose get_identifiers() texts equal the written items; a Function per call '
        'whose get_parameters() texts equal the written arguments; a Case whose get_cases() reproduces operand/WHEN/THEN/ELSE parts; a Comparison whose left/right '
        'equal the written operands; one TypedLiteral per typed literal. non-trivial: >=2 kinds of marked construct, one of them nested in parentheses or followed by a '
        'closer; distinct by statement text')
ASSUMPTIONS = ['a Where without following clause keyword extends to the end of the statement including its terminating semicolon (property: "to the end of the statement")',
               'operand/argument kinds of listed known findings are skipped in the main leg by a rule computed from the written lexemes and counted']

HAZ_ARG = 'single_nonident_arg'
HAZ_OPERAND = 'keyword_or_case_operand'
CLOSERS = {'GROUP BY', 'ORDER BY', 'LIMIT', 'UNION', 'UNION ALL', 'EXCEPT', 'HAVING', 'RETURNING', 'INTO'}


def node_spans(stmt):
    w = Walk(stmt)
    offs = [0]
    for l in w.leaves:
        offs.append(offs[-1] + len(l.value))
    out = []
    for g in w.groups:
        a, b = w.first_leaf[id(g)], w.last_leaf[id(g)]
        out.append((g, offs[a], offs[b + 1]))
    return out


def simple_operand(lex):
    """operand / single argument made of one identifier-like or literal thing (no bare keyword, CASE, operation ...)"""
    real = [l for l in lex if l[0] != 'mark']
    if not real:
        return False
    kinds = [l[0] for l in real]
    if all(k in ('name', 'qname', 'punct') for k in kinds) and kinds[0] != 'punct':
        return True                       # (qualified) column reference
    if len(real) == 1 and kinds[0] in ('num', 'str'):
        return True
    return False


def check(case):
    laid = case['lex']
    # OVER written directly before '(' is a function name for the lexer (the documented rule behind F12a): the clause
    # properties are stated for the keyword, so a blank is put back (construction, not filtering)
    laid = [[l[0], l[1], l[2], dict(l[3], gap=' ')] if l[0] == 'lp' and l[3].get('over_lp') and l[3].get('gap') == '' else l for l in laid]
    text, clean, spans, marks = G.assemble(laid)
    res = Result(key=text)
    try:
        stmts = sqlparse.parse(text)
    except Exception as e:
        res.failures.append(exc_failure('raises', e))
        return res
    if len(stmts) != 1:
        res.fail('statement-count', str(len(stmts)), text[:200])
        return res
    nodes = node_spans(stmts[0])
    by_cls = {}
    for g, a, b in nodes:
        by_cls.setdefault(type(g).__name__, []).append((g, a, b))

    def cspan(m):
        return spans[m['s']][0], spans[m['e'] - 1][1]

    def mtext(m):
        a, b = cspan(m)
        return text[a:b]

    def children(m, kind=None):
        return [x for x in marks if x['parent'] == m['id'] and (kind is None or x['k'] == kind)]

    def lex_of(m):
        return clean[m['s']:m['e']]

    kinds_seen = set()
    nested = False
    skipped = 0
    hazard_main = False
    only = case.get('only')
    if only:
        marks = [m for m in marks if m['k'] in only or m['k'] in ('operand', 'when', 'then', 'else')]
    # ---- Where
    wheres = [m for m in marks if m['k'] == 'where']
    for m in wheres:
        kinds_seen.add('where')
        a, _ = cspan(m)
        nxt = clean[m['e']] if m['e'] < len(clean) else None
        if nxt is None or nxt[0] == 'semi':
            end = len(text)
            follower = 'end'
        elif nxt[0] == 'rp':
            end = spans[m['e']][0]
            follower = ')'
            nested = True
        elif nxt[0] == 'kw' and nxt[3].get('canon', nxt[1]).upper() in CLOSERS:
            end = spans[m['e']][0]
            follower = nxt[3].get('canon', nxt[1]).upper()
            nested = True
        else:
            continue
        hit = [g for g, x, y in by_cls.get('Where', []) if x == a]
        if len(hit) != 1:
            res.fail('where', 'missing:' + follower, 'no Where node starts at the written WHERE (offset %d); text %r' % (a, text[:200]))
            continue
        y = [yy for g, x, yy in by_cls['Where'] if x == a][0]
        if y != end:
            res.fail('where', 'extent:' + follower, 'Where covers %r, written clause (follower %s) is %r' % (text[a:y][-60:], follower, text[a:end][-60:]))
    if not only and len(by_cls.get('Where', [])) != len(wheres):
        res.fail('where', 'count', '%d Where nodes for %d written WHERE clauses; text %r' % (len(by_cls.get('Where', [])), len(wheres), text[:200]))
    # ---- lists
    for m in [m for m in marks if m['k'] == 'list' and m['info'].get('n', 0) >= 2]:
        kinds_seen.add('list')
        items = children(m, 'item')
        a, b = cspan(m)
        hit = [g for g, x, y in by_cls.get('IdentifierList', []) if x == a and y == b]
        paren_item = any(lex_of(i)[0][0] == 'lp' and lex_of(i)[-1][0] == 'rp' for i in items if lex_of(i))
        if not hit:
            res.fail('list', 'missing:' + m['info']['ctx'] + (':paren_item_in_list' if paren_item else ''), 'no IdentifierList spans the written %s list %r' % (m['info']['ctx'], text[a:b][:120]))
            continue
        got = [str(i).strip() for i in hit[0].get_identifiers()]
        want = [mtext(i).strip() for i in items]
        if got != want:
            res.fail('list', 'items:' + m['info']['ctx'] + (':paren_item_in_list' if paren_item else ''), 'get_identifiers() gives %r, written %r' % (got[:6], want[:6]))
    # ---- functions
    for m in [m for m in marks if m['k'] == 'func']:
        a, b = cspan(m)
        hit = [g for g, x, y in by_cls.get('Function', []) if x == a and y == b]
        args = children(m, 'arg')
        hz = m['info'].get('nargs') == 1 and not simple_operand(lex_of(args[0])) and not any(x['k'] == 'func' and x['s'] == args[0]['s'] and x['e'] == args[0]['e'] for x in marks) \
            and not any(x['k'] == 'typed' and x['s'] == args[0]['s'] and x['e'] == args[0]['e'] for x in marks)
        if hz and hazard_main:
            skipped += 1
            continue
        kinds_seen.add('func')
        if not hit:
            res.fail('function', 'missing', 'no Function node spans the written call %r' % text[a:b][:120])
            continue
        if m['info'].get('nargs', 0) < 0:
            continue
        try:
            got = [str(p).strip() for p in hit[0].get_parameters()]
        except Exception as e:
            res.failures.append(exc_failure('accessor-raises', e))
            continue
        want = [mtext(x).strip() for x in args]
        if got != want:
            paren_arg = len(args) >= 2 and any(lex_of(x) and lex_of(x)[0][0] == 'lp' and lex_of(x)[-1][0] == 'rp' for x in args)
            res.fail('function', 'parameters' + (':' + HAZ_ARG if hz else '') + (':paren_item_in_list' if paren_arg else ''), 'get_parameters() gives %r, written %r; call %r' % (got[:5], want[:5], text[a:b][:100]))
    # ---- case
    for m in [m for m in marks if m['k'] == 'case']:
        kinds_seen.add('case')
        a, b = cspan(m)
        # comments written directly after END are attached to the Case node by design: the node may extend over them
        j = m['e']
        while j < len(clean) and clean[j][0] == 'comment':
            j += 1
        limit = spans[j][0] if j < len(clean) else len(text)      # start of the next word that is not a comment
        hit = [g for g, x, y in by_cls.get('Case', []) if x == a and (y == b or (j > m['e'] and b < y <= limit))]
        if not hit:
            res.fail('case', 'missing', 'no Case node spans the written CASE expression %r' % text[a:b][:120])
            continue
        want = []
        parts = children(m)
        op = [p for p in parts if p['k'] == 'operand']
        if op:
            want.append((mtext(op[0]).strip(), ''))
        whens = [p for p in parts if p['k'] == 'when']
        thens = [p for p in parts if p['k'] == 'then']
        for w_, t_ in zip(whens, thens):
            want.append((mtext(w_).strip(), mtext(t_).strip()))
        els = [p for p in parts if p['k'] == 'else']
        if els:
            want.append((None, mtext(els[0]).strip()))
        try:
            got = [(None if c is None else ''.join(str(t) for t in c).strip(), ''.join(str(t) for t in v).strip()) for c, v in hit[0].get_cases()]
        except Exception as e:
            res.failures.append(exc_failure('accessor-raises', e))
            continue
        got = [(c, v) for c, v in got if (c or '') != '' or v != '']       # whitespace-only entries carry no written part
        if got != want:
            res.fail('case', 'parts', 'get_cases() gives %r, written %r' % (got[:4], want[:4]))
    # ---- comparison
    for m in [m for m in marks if m['k'] == 'cmp']:
        l_, r_ = children(m, 'left')[0], children(m, 'right')[0]
        hz = False
        for side in (l_, r_):
            lx = [x for x in lex_of(side)]
            first = lx[0]
            if first[0] == 'kw' and first[3].get('canon', first[1]).upper() in ('CASE', 'TRUE', 'FALSE', 'CAST', 'EXISTS', 'NOT'):
                hz = True
            if len(lx) == 1 and first[0] == 'star':
                hz = True
        if hz and hazard_main:
            skipped += 1
            continue
        kinds_seen.add('cmp')
        a, b = cspan(m)
        hit = [g for g, x, y in by_cls.get('Comparison', []) if x == a and y == b]
        if not hit:
            res.fail('comparison', 'missing' + (':' + HAZ_OPERAND if hz else ''), 'no Comparison node spans the written comparison %r' % text[a:b][:120])
            continue
        gl, gr = str(hit[0].left).strip(), str(hit[0].right).strip()
        if gl != mtext(l_).strip() or gr != mtext(r_).strip():
            res.fail('comparison', 'operands', 'left/right = %r / %r, written %r / %r' % (gl[:40], gr[:40], mtext(l_)[:40], mtext(r_)[:40]))
    # ---- typed literal
    for m in [m for m in marks if m['k'] == 'typed']:
        kinds_seen.add('typed')
        a, b = cspan(m)
        hit = [g for g, x, y in by_cls.get('TypedLiteral', []) if x == a and y == b]
        if not hit:
            res.fail('typed-literal', 'missing:' + clean[m['s']][3].get('canon', clean[m['s']][1]).upper(), 'no TypedLiteral node spans %r; text %r' % (text[a:b], text[max(0, a - 30):b + 30]))
    nested = nested or any(l[0] == 'lp' for l in clean)
    res.nontrivial = len(kinds_seen) >= 2 and nested
    res.labels = ['kind:' + k for k in sorted(kinds_seen)] + ['skipped-by-hazard'] * bool(skipped)
    res.sample = {'text': text[:300], 'marks': sorted(kinds_seen)}
    return res


def _main(tier):
    ex = excluded_hazards(ID)
    skip = bool({HAZ_ARG, HAZ_OPERAND} & ex)
    return st.tuples(st.booleans(), G.predrawn_layout(0), G.statement()).flatmap(
        lambda t: G.layout(t[2] + ([list(G.SEMI)] if t[0] else []), comments=0, inner=False, raw=t[1][0])).map(lambda laid: {'lex': laid, 'skip_hazards': skip})


def _exprs(tier):
    """expression-rich statements: SELECT <items from the full expression grammar> FROM t [WHERE cond] [follower]"""
    from gen.grammar import L, kw, W, seq, comma_list
    # a scalar subquery (with its own WHERE / lists / comparisons) as a call argument, over-clause operand or nested call argument
    subq_call = st.tuples(st.sampled_from(G.FUNCS), G.select(1), st.one_of(st.none(), G.expr(0))).map(
        lambda t: G.func_call(t[0], [W('paren', G.paren(t[1]), subquery=True)] + ([t[2]] if t[2] is not None else [])))
    # a CASE expression as bare operand of an arithmetic / concatenation operator, on either side
    case1 = st.tuples(st.lists(st.tuples(G.cond(0), G.expr(0)), min_size=1, max_size=2), st.one_of(st.none(), G.expr(0))).map(lambda t: G.case_expr(None, t[0], t[1]))
    case_op = st.tuples(case1, st.sampled_from(G.BINOPS), G.expr(0), st.booleans()).map(
        lambda t: W('binop', seq(t[0], G.opl(t[1]), G.tight_first(G._operand(t[2]))) if t[3] else seq(G._operand(t[2]), G.opl(t[1]), G.tight_first(t[0]))))
    rich = G.weighted((3, G.expr(2)), (1, G.expr(1)), (1, st.tuples(G.expr(1), G.alias).map(lambda t: G.with_alias(*t))), (1, subq_call), (1, case_op))

    def mk(items, where, follower):
        lex = seq(L('kw', 'SELECT', False, lead='SELECT'), W('list', comma_list([W('item', i) for i in items]), ctx='select', n=len(items)),
                  kw('FROM', clause=True), L('name', 't9'))
        if where is not None:
            lex += W('where', seq(kw('WHERE', clause=True), where))
        if follower:
            lex += seq(kw(follower, clause=True), L('num', '1'))
        return W('stmt', lex, type='SELECT')
    stmt = st.builds(mk, st.lists(rich, min_size=1, max_size=4), st.one_of(st.none(), G.cond(1), G.cond(2)),
                     st.sampled_from([None, None, 'GROUP BY', 'ORDER BY', 'LIMIT']))
    return st.tuples(G.predrawn_layout(0), stmt).flatmap(lambda t: G.layout(t[1], comments=0, inner=False, raw=t[0][0])).map(lambda laid: {'lex': laid})


@st.composite
def case_comment_cases(draw):
    """CASE expressions directly followed by a comment (before alias / comma / next clause): the comment is attached to the
    Case node after its END; get_cases() must still yield exactly the written parts"""
    from gen.grammar import L, kw, W, seq, comma_list
    c = st.one_of(G.cond(0), G.cond(1))
    e = G.expr(0)
    case = st.tuples(st.one_of(st.none(), st.none(), e), st.lists(st.tuples(c, e), min_size=1, max_size=3), st.one_of(st.none(), e)).map(lambda t: G.case_expr(*t))
    n = draw(st.integers(1, 3))
    raw, pool = draw(G.predrawn_layout(10))
    cms = [draw(st.sampled_from(['/* flag */', '/*c*/', '-- first column\n', '--x\n', '/*+ h */', '# c\n'])) for _ in range(n)]
    tails = [draw(st.sampled_from(['', '', 'alias', 'as'])) for _ in range(n)]
    items = []
    for i in range(n):
        it = seq(draw(case), [['comment', cms[i], False, {}]])
        if tails[i] == 'alias':
            it = seq(it, L('name', 'c%d' % i))
        elif tails[i] == 'as':
            it = seq(it, kw('AS'), L('name', 'c%d' % i))
        items.append(it)
    where = draw(st.one_of(st.none(), G.cond(0)))
    lex = seq(L('kw', 'SELECT', False, lead='SELECT'), comma_list(items), kw('FROM', clause=True), L('name', 't9'))
    if where is not None:
        lex += W('where', seq(kw('WHERE', clause=True), where))
    laid = draw(G.layout(W('stmt', lex, type='SELECT'), comments=0, inner=False, raw=raw))
    return {'lex': laid, 'only': ['case']}


LEGS = [Leg('case-comment', check=lambda case: check(case), strategy=lambda tier: case_comment_cases(), examples={'quick': 1500, 'thorough': 30000}),
        Leg('exprs', check=check, strategy=_exprs, examples={'quick': 5000, 'thorough': 120000}),
        Leg('main', check=check, strategy=_main, examples={'quick': 10000, 'thorough': 250000})]
