"""C14 Literal, quoted-name and comment bodies are opaque; keywords classify by table (DESIGN.md section 6, C14)."""
import itertools

from hypothesis import strategies as st

from sqlparse import keywords as K, lexer, tokens as T

from gen import options as O
from gen import chars, regions as R, grammar as G
from vlib.core import Leg, Result, exc_failure

ID = 'C14'
RULE = ("long-regions: every region kind x body length in {1000 .. 70000 incl. 4096, 32768, 65536 +-1} x 5 body units x 3 contexts, enumerated. regions: kind in {'..' with '' pairs, \"..\", `..`, [..], $tag$..$tag$, /*..*/, --.. + line end or EOF} x body over the full character set, constrained by "
        "construction to lack the region's terminator (and backslash for quote-delimited kinds) x left/right context from a fixed delimiter set; oracle: "
        "tokenize(L + lexeme + R) == tokenize(L) + [(expected type, lexeme)] + tokenize(R). keywords: every single-word key of the nine dictionaries x "
        "{upper, lower, capitalised} x 7 left x 7 right contexts enumerated completely, plus drawn case masks and random non-dictionary words; oracle: exactly one "
        "token whose type is that of the first dictionary in the documented order, or of the dedicated rule table. non-trivial (regions): body contains another "
        "kind's opener/terminator, a semicolon or a non-ASCII character; every keyword triple is non-trivial; distinct by full text")
ASSUMPTIONS = ['dictionary order and the dedicated-rule table are written down in the oracle from the documentation, not read from the Lexer',
               'right contexts ( and . are excluded for words: there a dedicated rule makes the word a Name by design',
               'context pairs that legitimately interact with the region delimiters are removed from the context set and listed in the module']

DICT_ORDER = ['KEYWORDS_COMMON', 'KEYWORDS_ORACLE', 'KEYWORDS_MYSQL', 'KEYWORDS_PLPGSQL', 'KEYWORDS_HQL', 'KEYWORDS_MSACCESS',
              'KEYWORDS_SNOWFLAKE', 'KEYWORDS_BIGQUERY', 'KEYWORDS']
DEDICATED = {
    'CASE': T.Keyword, 'IN': T.Keyword, 'VALUES': T.Keyword, 'USING': T.Keyword, 'FROM': T.Keyword, 'AS': T.Keyword,
    'END': T.Keyword, 'JOIN': T.Keyword, 'ASC': T.Keyword.Order, 'DESC': T.Keyword.Order, 'CREATE': T.Keyword.DDL,
    'LIKE': T.Operator.Comparison, 'ILIKE': T.Operator.Comparison, 'RLIKE': T.Operator.Comparison, 'REGEXP': T.Operator.Comparison,
}
LEFT = ['', ' ', '\n', ',', '(', ')', ';', '=', '1 ', 'x ', '\t']
RIGHT = ['', ' ', '\n', ',', '(', ')', ';', '=', ' 1', ' x', '\r\n']
KINDS = ['sq', 'dq', 'bt', 'br', 'dol', 'ml', 'sl']


def expected_type(word):
    up = word.upper()
    if up in DEDICATED:
        return DEDICATED[up]
    for name in DICT_ORDER:
        d = getattr(K, name)
        if up in d:
            return d[up]
    return T.Name


def build_region(kind, body, extra):
    if kind == 'sq':
        return R.sq_body(body), T.String.Single
    if kind == 'dq':
        return R.dq_body(body), T.String.Symbol
    if kind == 'bt':
        return R.bt_body(body), T.Name
    if kind == 'br':
        return R.br_body(body), T.Name
    if kind == 'dol':
        return R.dollar_body(body, extra), T.Literal
    if kind == 'ml':
        b = R.strip_term(body, '*/')
        if b.startswith('!'):           # keep plain; /*! is an ordinary comment for the lexer anyway
            pass
        return '/*' + b + '*/', (T.Comment.Multiline.Hint if b.startswith('+') else T.Comment.Multiline)
    b = body.replace('\n', ' ').replace('\r', ' ')
    return '--' + b + extra, (T.Comment.Single.Hint if b.startswith('+') else T.Comment.Single)


def check_region(case):
    kind, body, left, right, extra = case['kind'], case['body'], case['left'], case['right'], case['extra']
    lexeme, typ = build_region(kind, body, extra)
    if kind == 'sl' and extra == '':
        right = ''                   # EOF-terminated
    if kind == 'sl' and extra == '\r' and right.startswith('\n'):
        right = ' ' + right          # \r + \n would be one CRLF line end
    if kind == 'sq' and right[:1] == "'":
        right = ' ' + right
    if kind == 'br' and left[-1:] and (left[-1].isalnum() or left[-1] in '_])'):
        left = left + ' '          # behind a word, ']' or ')' a bracket is an array index (documented lexer rule)
    text = left + lexeme + right
    res = Result(key=text)
    try:
        got = list(lexer.tokenize(text))
        exp = list(lexer.tokenize(left)) + [(typ, lexeme)] + list(lexer.tokenize(right))
    except Exception as e:
        res.failures.append(exc_failure('raises', e))
        return res
    if len(got) != len(exp) or any(a[0] is not b[0] or a[1] != b[1] for a, b in zip(got, exp)):
        i = next((i for i, (a, b) in enumerate(zip(got, exp)) if a[0] is not b[0] or a[1] != b[1]), min(len(got), len(exp)))
        res.fail('region', kind, 'token %d: got %r, expected %r; text %r' % (i, got[i] if i < len(got) else None, exp[i] if i < len(exp) else None, text[:120]))
    others = ["'", '"', '`', '$$', '/*', '*/', '--', ';', '\n']
    res.nontrivial = any(o in body for o in others) or any(ord(c) > 127 for c in body)
    res.labels = ['region:' + kind] + ['body-has-other-delimiter'] * any(o in body for o in others[:7]) + ['body-non-ascii'] * any(ord(c) > 127 for c in body)
    res.sample = {'text': text[:200], 'kind': kind}
    return res


@st.composite
def region_cases(draw):
    kind = draw(st.sampled_from(KINDS))
    body = draw(st.one_of(chars.body(12), chars.body(12), chars.body(40), R.adversarial))
    extra = ''
    if kind == 'dol':
        extra = draw(st.sampled_from(R.TAGS))
        if extra and draw(st.integers(0, 3)) == 0:
            # the tag in another letter case is ordinary body text (tags are case-sensitive)
            body = body + draw(st.sampled_from(['$%s$', ' $%s$ ;', '$$%s'])) % extra.swapcase()
    elif kind == 'sl':
        extra = draw(st.sampled_from(['\n', '\r', '\r\n', '']))
    return {'kind': kind, 'body': body, 'left': draw(st.sampled_from(LEFT)), 'right': draw(st.sampled_from(RIGHT)), 'extra': extra}


# ---- keywords ---------------------------------------------------------------------------------------------

KW_LEFT = ['', ' ', '\n', '(', ',', ';', '=']
KW_RIGHT = ['', ' ', '\n', ')', ',', ';', '=']


def all_words():
    words = set()
    for name in DICT_ORDER:
        words |= set(getattr(K, name))
    single = sorted(w for w in words if w.replace('_', '').isalnum() and not w[0].isdigit())
    multi = sorted(w for w in words if not (w.replace('_', '').isalnum()))
    return single, multi


def variants(w):
    return [w.upper(), w.lower(), w.capitalize()]


def check_word(case):
    word, left, right = case['word'], case['left'], case['right']
    text = left + word + right
    res = Result(key=text, nontrivial=True)
    exp_t = expected_type(word)
    try:
        got = list(lexer.tokenize(text))
        exp = list(lexer.tokenize(left)) + [(exp_t, word)] + list(lexer.tokenize(right))
    except Exception as e:
        res.failures.append(exc_failure('raises', e))
        return res
    if len(got) != len(exp) or any(a[0] is not b[0] or a[1] != b[1] for a, b in zip(got, exp)):
        i = next((i for i, (a, b) in enumerate(zip(got, exp)) if a[0] is not b[0] or a[1] != b[1]), min(len(got), len(exp)))
        res.fail('keyword', str(exp_t), 'text %r token %d: got %r, expected %r' % (text, i, got[i] if i < len(got) else None, exp[i] if i < len(exp) else None))
    res.labels = ['dict-word' if exp_t is not T.Name else 'non-dict-word']
    res.sample = {'text': text, 'expected': str(exp_t)}
    return res


def enum_words(tier):
    single, multi = all_words()
    for w in single:
        for v in variants(w):
            for l, r in itertools.product(KW_LEFT, KW_RIGHT):
                yield {'word': v, 'left': l, 'right': r}


@st.composite
def drawn_words(draw):
    single, multi = all_words()
    if draw(st.booleans()):
        w = draw(st.sampled_from(single))
        mask = draw(O.bitset(len(w)))
        w = ''.join(c.upper() if mask >> i & 1 else c.lower() for i, c in enumerate(w))
    else:
        w = draw(G.drawn_name)
        if w[0].isdigit() or not w.replace('_', '').isalnum():
            w = 'zq' + ''.join(c for c in w if c.isalnum())
    return {'word': w, 'left': draw(st.sampled_from(KW_LEFT)), 'right': draw(st.sampled_from(KW_RIGHT))}


LONG_SIZES = {'quick': [1000, 4095, 4096, 4097, 32767, 32768, 32769, 40000, 65535, 65536, 65537, 70000], 'thorough': [1000, 4096, 4097, 16384, 32768, 32769, 40000, 65536, 65537, 70000, 131073, 200000, 1000000]}


def long_regions(tier):
    """every region kind with a body of a boundary length (a region is opaque whatever its size)"""
    for kind in KINDS:
        for n in LONG_SIZES[tier]:
            for unit in ['x', 'select 1; ', "it's ", '* /', 'é"`$ ']:
                body = (unit * (n // len(unit) + 1))[:n]
                for left, right in [('', ''), ('select ', ' from t'), ('(', ')')]:
                    yield {'kind': kind, 'body': body, 'left': left, 'right': right, 'extra': 'tag' if kind == 'dol' else '\n' if kind == 'sl' else ''}


def check_long(case):
    res = check_region(case)
    res.key = [case['kind'], len(case['body']), case['body'][:12], case['left']]
    res.sample = {'kind': case['kind'], 'length': len(case['body']), 'unit': case['body'][:12]}
    res.labels = ['long-region:' + case['kind']]
    return res


LEGS = [Leg('long-regions', check=check_long, enumerate=long_regions, exhaustive=True),
        Leg('regions', check=check_region, strategy=lambda tier: region_cases(), examples={'quick': 20000, 'thorough': 1000000}),
        Leg('keywords', check=check_word, enumerate=enum_words, exhaustive=True),
        Leg('keyword-masks', check=check_word, strategy=lambda tier: drawn_words(), examples={'quick': 8000, 'thorough': 200000})]
