"""C15 Pathological nesting is reported as SQLParseError, never a crash (DESIGN.md section 6, C15)."""
import json
import os
import select
import subprocess
import sys

from hypothesis import given, seed as hseed, strategies as st

from gen import options as O
from props import c15_child
from vlib.core import Leg, Result, _hyp_settings, mix_seed, VERIF

ID = 'C15'
RULE = ('cases: nesting construct in {parentheses, brackets, CASE, function calls, subqueries, BEGIN, IF, operator/comparison/comma/dot/AS/typecast chains, unclosed '
        'openers, stray closers, mixtures, comment-laden parentheses, CREATE..BEGIN bodies, parentheses/calls/brackets/CASE with an operator, comparison or comma list at every level} x depth in [0.05, 3] x recursion limit x limit in {100,150,300,1000} '
        '(thorough adds 500,3000) x entry point in {parse, parsestream, split, format + drawn valid option set}; drawn by Hypothesis, executed in a plain-Python child '
        'process whose recursion limit is set after the imports; outcome must be ok (result passes round-trip and tree invariants computed by an iterative walk, '
        'str() at the caller\'s stack depth) or SQLParseError; after every case - and inside the handler of every SQLParseError - an ordinary split/format call must still work; a child that dies, or that neither answers nor uses any CPU time for 90 s (a call that never returns), is a violation; a quarter of the inputs continue with a second statement. '
        'leg moderate: the grid shape x depth in {25,51,60,120,200} x entry point x 9 fixed option sets at the default limit 1000, enumerated completely (the zone where calls normally succeed: any exception other than SQLParseError shows). non-trivial: depth >= 0.5 x limit (the guard is reached), or depth >= 51 at the default limit 1000; distinct by (construct, depth, limit, entry, options)')
ASSUMPTIONS = ['the child process imports sqlparse before lowering the recursion limit (an application does the same)',
               'limits below 100 leave too little stack for an ordinary call and are not used']

LIMITS = {'quick': [100, 150, 300, 1000], 'thorough': [100, 150, 300, 500, 1000, 3000]}
ENTRIES = ['parse', 'parsestream', 'split', 'format']
HANG_S = 90


@st.composite
def cases(draw, limit):
    shape = draw(st.sampled_from(sorted(c15_child.SHAPES)))
    if limit >= 1000:
        # the interpreter's default limit (and above): nests that the Python-level recursion still accepts but that are deep
        # for C-level recursion (str(), repr()); cost grows quadratically, so depths are capped
        factor = draw(st.sampled_from([0.2, 0.3, 0.35, 0.5, 0.6, 1.1]))
        depth = min(max(1, int(1000 * factor) + draw(st.integers(-3, 3))), 1200)
    else:
        factor = draw(st.sampled_from([0.05, 0.2, 0.4, 0.5, 0.6, 0.8, 1.0, 1.2, 2.0, 3.0]))
        depth = max(1, int(limit * factor) + draw(st.integers(-3, 3)))
        if limit >= 500:
            depth = min(depth, 1200)
    entry = draw(st.sampled_from(ENTRIES))
    opts = draw(O.valid_options()) if entry == 'format' else {}
    # the nested statement is not always the last one of its script
    tail = draw(st.sampled_from(['', '', ';\nselect 2;', '; select a from b where c = 1']))
    return {'shape': shape, 'depth': depth, 'limit': limit, 'entry': entry, 'opts': opts, 'tail': tail}


class Child:
    def __init__(self, limit):
        self.limit = limit
        self.start()

    def start(self):
        env = dict(os.environ, PYTHONHASHSEED='0', PYTHONDONTWRITEBYTECODE='1')
        self.p = subprocess.Popen([sys.executable, os.path.join(VERIF, 'props', 'c15_child.py'), str(self.limit)],
                                  stdin=subprocess.PIPE, stdout=subprocess.PIPE, stderr=subprocess.DEVNULL, env=env, text=True)

    def _cpu(self):
        """CPU seconds the child has used so far (None if unknown)"""
        try:
            with open('/proc/%d/stat' % self.p.pid) as f:
                parts = f.read().rsplit(')', 1)[1].split()
            return (int(parts[11]) + int(parts[12])) / float(os.sysconf('SC_CLK_TCK'))
        except Exception:
            return None

    def run(self, case):
        hung = False
        try:
            self.p.stdin.write(json.dumps(case) + '\n')
            self.p.stdin.flush()
            # a case takes milliseconds to a few seconds; a child that says nothing for HANG_S seconds is stuck (a call
            # that never returns): it is killed and the case is reported
            idle = 0
            last_cpu = self._cpu()
            while True:
                ready, _, _ = select.select([self.p.stdout], [], [], HANG_S / 3.0)
                if ready:
                    line = self.p.stdout.readline()
                    break
                cpu = self._cpu()
                if cpu is not None and last_cpu is not None and cpu - last_cpu >= 0.5:
                    idle = 0           # slow, but computing (a loaded machine is not a hang)
                else:
                    idle += 1
                last_cpu = cpu
                if idle >= 3:
                    hung = True
                    line = ''
                    break
        except (BrokenPipeError, OSError):
            line = ''
        if hung:
            try:
                self.p.kill()
            except Exception:
                pass
            self.start()
            return {'outcome': 'child-hung', 'detail': 'no answer and no CPU use for %d s' % HANG_S, 'inv': None, 'after': None, 'len': 0}
        if not line:
            rc = self.p.poll()
            try:
                self.p.kill()
            except Exception:
                pass
            self.start()
            return {'outcome': 'child-died', 'detail': 'exit %s' % rc, 'inv': None, 'after': None, 'len': 0}
        return json.loads(line)

    def close(self):
        try:
            self.p.stdin.close()
            self.p.wait(timeout=10)
        except Exception:
            self.p.kill()


_children = {}
_hung = [0]
_owner = [None]


def check(case):
    limit = case['limit']
    if _owner[0] != os.getpid():
        # children started before a fork belong to the parent process: a shard talks to its own interpreters only
        _children.clear()
        _hung[0] = 0
        _owner[0] = os.getpid()
    if _hung[0] >= 2:
        # two calls of this shard never returned (reported); every further case would only wait for the same stuck call
        res = Result(key=['skipped', case['shape'], case['depth'], limit, case['entry']])
        res.labels = ['skipped-after-two-hangs']
        return res
    ch = _children.get(limit)
    if ch is None:
        ch = _children[limit] = Child(limit)
    out = ch.run(case)
    if out['outcome'] == 'child-hung':
        _hung[0] += 1
    res = Result(key=[case['shape'], case['depth'], limit, case['entry'], sorted((case.get('opts') or {}).items()), case.get('tail') or ''])
    oc = out['outcome']
    if oc not in ('ok', 'SPE'):
        res.fail('escapes', '%s:%s:%s' % (oc, case['entry'], out.get('detail', '').split(' ')[0]),
                 '%s at depth %d (limit %d, %s, options %r): %s %s' % (case['shape'], case['depth'], limit, case['entry'], case.get('opts'), oc, out.get('detail', '')))
    if oc == 'ok' and out.get('inv'):
        res.fail('result-invariant', out['inv'], '%s at depth %d (limit %d, %s): result violates %s' % (case['shape'], case['depth'], limit, case['entry'], out['inv']))
    if out.get('in_handler') not in ('ok', None):
        res.fail('later-call', 'in-handler:' + str(out['in_handler']), 'an ordinary call made while the SQLParseError of %s depth %d (limit %d, %s) is handled gives %s' % (
            case['shape'], case['depth'], limit, case['entry'], out['in_handler']))
    if out.get('after') not in ('ok', None):
        res.fail('later-call', str(out['after']), 'an ordinary call after %s depth %d (limit %d, %s) gives %s' % (case['shape'], case['depth'], limit, case['entry'], out['after']))
    res.nontrivial = case['depth'] >= 0.5 * limit or (limit >= 1000 and case['depth'] >= 51)
    res.labels = ['outcome:' + str(oc), 'limit:%d' % limit, 'entry:' + case['entry'], 'shape:' + case['shape'] + ':' + str(oc)]
    res.sample = {'shape': case['shape'], 'depth': case['depth'], 'limit': limit, 'entry': case['entry'], 'options': case.get('opts'), 'outcome': oc}
    return res


def run(tier, seed, shard, nshards, n, collector, leg):
    limits = LIMITS[tier]
    limit = limits[shard % len(limits)]
    if limit >= 1000:
        n = max(4, n // 4)          # deep cases at the default limit cost seconds each
    drawn = []

    @hseed(mix_seed(seed, ID, 'nesting', shard))
    @_hyp_settings(n)
    @given(cases(limit))
    def t(case):
        drawn.append(case)
    t()
    try:
        for case in drawn:
            collector.run_case(leg, case)
            if _hung[0] >= 2:
                break          # every further case would wait for the same stuck call
    finally:
        for ch in _children.values():
            ch.close()
        _children.clear()


GRID_OPTS = [{}, {'reindent': True}, {'reindent_aligned': True}, {'strip_comments': True, 'strip_whitespace': True}, {'use_space_around_operators': True},
             {'reindent': True, 'comma_first': True, 'indent_columns': True, 'wrap_after': 20}, {'reindent': True, 'indent_tabs': True, 'compact': True, 'indent_after_first': True},
             {'keyword_case': 'upper', 'identifier_case': 'lower', 'output_format': 'python'}, {'truncate_strings': 3}]
GRID_DEPTHS = {'quick': [25, 51, 60, 120, 200], 'thorough': [10, 25, 40, 51, 60, 80, 120, 160, 200, 250]}


def _grid(tier):
    """moderate depths at the interpreter's default recursion limit: the zone in which calls are expected to succeed
    (every shape x depth x entry point x fixed option sets, enumerated completely)"""
    for shape in sorted(c15_child.SHAPES):
        for depth in GRID_DEPTHS[tier]:
            for entry in ('parse', 'parsestream', 'split'):
                yield {'shape': shape, 'depth': depth, 'limit': 1000, 'entry': entry, 'opts': {}}
            for opts in GRID_OPTS:
                yield {'shape': shape, 'depth': depth, 'limit': 1000, 'entry': 'format', 'opts': opts}


LEGS = [Leg('moderate', check=check, enumerate=_grid, exhaustive=True),
        Leg('nesting', check=check, run=run, kind='custom', examples={'quick': 600, 'thorough': 6000})]
