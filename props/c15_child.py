"""Child process of C15: plain Python, recursion limit set after the imports.  Reads one JSON case per line on stdin,
answers one JSON line per case on stdout.  No Hypothesis in here."""
import io
import json
import os
import sys

sys.dont_write_bytecode = True
HERE = os.path.dirname(os.path.dirname(os.path.abspath(__file__)))
sys.path.insert(0, HERE)
sys.path.insert(0, os.environ.get('VERIF_REPO', '/repo'))

import sqlparse  # noqa: E402
from sqlparse.exceptions import SQLParseError  # noqa: E402
from oracles.treecheck import Walk  # noqa: E402

SHAPES = {
    'paren': lambda d: 'select ' + '(' * d + '1' + ')' * d,
    'open': lambda d: 'select ' + '(' * d,
    'close': lambda d: 'select ' + ')' * d,
    'brack': lambda d: 'select a' + '[' * d + '1' + ']' * d,
    'brack-open': lambda d: 'select a' + '[' * d,
    'case': lambda d: 'select ' + 'case when a then ' * d + '1' + ' end' * d,
    'case-open': lambda d: 'select ' + 'case when a then ' * d + '1',
    'func': lambda d: 'select ' + 'f(' * d + '1' + ')' * d,
    'subq': lambda d: 'select * from ' + '(select * from ' * d + 't' + ')' * d,
    'begin': lambda d: 'begin ' * d + 'x' + ' end' * d,
    'if': lambda d: 'if a then ' * d + 'x' + ' end if' * d,
    'ops': lambda d: 'select ' + 'a+' * d + '1',
    'cmp': lambda d: 'select ' + 'a=' * d + '1',
    'commas': lambda d: 'select ' + 'a,' * d + '1',
    'dots': lambda d: 'select ' + 'a.' * d + 'b',
    'as': lambda d: 'select ' + 'a as ' * d + 'b',
    'typecast': lambda d: 'select a' + '::int' * d,
    'mixed': lambda d: 'select ' + '(case when f([' * (d // 4 + 1) + '1' + ']) then 1 end)' * (d // 4 + 1),
    'paren-where': lambda d: 'select * from t where ' + '(a = 1 and ' * d + 'b' + ')' * d,
    'comment-paren': lambda d: 'select ' + '( /*c*/ ' * d + '1' + ' )' * d,
    'paren-ops': lambda d: 'select ' + '(1 + ' * d + '1' + ')' * d,
    'paren-cmp': lambda d: 'select * from t where ' + '(a = ' * d + '1' + ')' * d,
    'func-ops': lambda d: 'select ' + 'f(1 + ' * d + '1' + ')' * d,
    'func-commas': lambda d: 'select ' + 'f(a, ' * d + '1' + ')' * d,
    'paren-commas': lambda d: 'select ' + '(a, ' * d + '1' + ')' * d,
    'brack-ops': lambda d: 'select a' + '[1 + a' * d + '[1]' + ']' * d,
    'case-ops': lambda d: 'select ' + 'case when a = 1 then 1 + ' * d + '1' + ' end' * d,
    'subq-where': lambda d: 'select a from t where a in (select a from t where a in (' * (d // 2) + 'select 1' + '))' * (d // 2),
    'subq-list': lambda d: 'select a, (select b, (' * (d // 2) + 'select 1' + ') from u) from t' * (d // 2),
    'create-begin': lambda d: 'create procedure p() ' + 'begin ' * d + 'select 1; ' + 'end; ' * d,
}


def invariants(text, stmts):
    """round trip and tree well-formedness with an iterative walk; str() at the caller's own stack depth"""
    joined = ''.join(str(s) for s in stmts)
    if not text.startswith(joined) or text[len(joined):].strip() != '':
        return 'roundtrip'
    for s in stmts:
        w = Walk(s)
        if w.dup:
            return 'node-twice'
        for g in w.groups:
            if not g.tokens:
                return 'empty-group'
            for c in g.tokens:
                if c.parent is not g:
                    return 'parent'
        if ''.join(l.value for l in w.leaves) != str(s):
            return 'leaves'
    return None


def run_case(case):
    text = SHAPES[case['shape']](case['depth']) + (case.get('tail') or '')
    ep = case['entry']
    opts = case.get('opts') or {}
    out = {'outcome': None, 'detail': '', 'inv': None, 'after': None, 'len': len(text)}
    try:
        if ep == 'parse':
            r = sqlparse.parse(text)
            out['inv'] = invariants(text, r)
            for s in r:
                s.get_type()
        elif ep == 'parsestream':
            r = list(sqlparse.parsestream(io.StringIO(text)))
            out['inv'] = invariants(text, r)
        elif ep == 'split':
            r = sqlparse.split(text)
            if ''.join(''.join(r).split()) != ''.join(text.split()):
                out['inv'] = 'split-roundtrip'
        else:
            r = sqlparse.format(text, **opts)
            if not isinstance(r, str):
                out['inv'] = 'format-type'
        out['outcome'] = 'ok'
    except SQLParseError:
        out['outcome'] = 'SPE'
        # a later call made while the error is still being handled (the usual "fall back to plain output" pattern)
        try:
            ok = sqlparse.split('select 1; select 2') == ['select 1;', 'select 2'] and sqlparse.format('select  1', strip_whitespace=True) == 'select 1'
            out['in_handler'] = 'ok' if ok else 'wrong-result'
        except Exception as e2:
            out['in_handler'] = 'exc:' + type(e2).__name__
    except RecursionError as e:
        out['outcome'] = 'RecursionError'
        out['detail'] = _where(e)
    except Exception as e:
        out['outcome'] = 'exc:' + type(e).__name__
        out['detail'] = _where(e) + ' ' + str(e)[:100]
    try:
        ok = sqlparse.split('select 1; select 2') == ['select 1;', 'select 2'] and len(sqlparse.parse('select a from b')) == 1
        out['after'] = 'ok' if ok else 'wrong-result'
    except Exception as e:
        out['after'] = 'exc:' + type(e).__name__
    return out


def _where(e):
    import traceback
    repo = os.path.realpath(os.environ.get('VERIF_REPO', '/repo'))
    best = ''
    for fs in traceback.extract_tb(e.__traceback__)[-400:]:
        if os.path.realpath(fs.filename).startswith(repo):
            best = '%s:%s' % (os.path.basename(fs.filename), fs.name)
    return best


def main():
    limit = int(sys.argv[1])
    sys.setrecursionlimit(limit)
    for line in sys.stdin:
        line = line.strip()
        if not line:
            continue
        case = json.loads(line)
        sys.stdout.write(json.dumps(run_case(case)) + '\n')
        sys.stdout.flush()


if __name__ == '__main__':
    main()
