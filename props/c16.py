"""C16 No lexical rule can backtrack exponentially (DESIGN.md section 6, C16)."""
import re
import time

from hypothesis import strategies as st

from sqlparse import keywords, lexer

from gen import regexpump, chars
from vlib.core import Leg, Result, exc_failure

ID = 'C16'
BUDGET = 2.0
RULE = ('cases: for every rule the default lexer applies (patterns of its compiled rules; the source table SQL_REGEX as fallback) an alphabet of its literals and character-class representatives (+ newline and a non-member) is extracted with '
        're._parser; candidates prefix + pump^n + suffix with pump enumerated over all strings of length <=3 over the rule alphabet (<=7 symbols), prefix in {empty, 4 '
        'starters}, suffix in {empty, non-member}, total length ~60, and length ~2000 for pumps of length <=2; leg loops: for every repetition in every rule the prefix that carries a match attempt to that loop (witness of the pattern before it) + pump^n over one representative per minterm of the one-character elements of the rule restricted to the loop body (Latin blocks and members of every Unicode category incl. non-ASCII digits/letters/spaces; classes accepted by several body elements first), pump length <=3 (<=4 over alphabets of <=4 symbols) and whole loop iterations (witnesses of each alternative of the body, with and without optional parts) as pumps, n ~60 and 3000; plus Hypothesis-drawn pumps of length <=6 over the union '
        'alphabet and G1 fragments at lengths 60 and 3000. Each candidate is tokenized by the whole lexer under a CPU-time alarm; oracle: CPU time <= %.0f s (exponential '
        'ambiguity makes length-60 pumps take hours). non-trivial: the targeted rule matches at least two pump copies somewhere in the candidate; distinct by candidate string' % BUDGET)
ASSUMPTIONS = ['the property\'s universal clause (no input at all, no ambiguity in any rule) is beyond generated search; decided is: no candidate of the stated shapes exceeds the budget',
               'CPU time of the process (ITIMER_VIRTUAL) is measured, so machine load cannot cause an alarm; observed worst on the unchanged tree is ~100x below the budget']

_rx = {}


def _compiled(i):
    if i not in _rx:
        _rx[i] = re.compile(current_rules()[i][0], re.IGNORECASE | re.UNICODE)
    return _rx[i]


def build(case):
    return case['prefix'] + case['pump'] * case['reps'] + case['suffix']


def check(case):
    text = build(case)
    res = Result(key=text if len(text) < 200 else [case['prefix'], case['pump'], case['reps'], case['suffix']])
    t0 = time.process_time()
    try:
        n = 0
        for _ in lexer.tokenize(text):
            n += 1
    except Exception as e:
        res.failures.append(exc_failure('raises', e))
        return res
    dt = time.process_time() - t0
    if dt > BUDGET:
        res.fail('budget', 'rule%s' % case.get('rule', '?'), 'tokenizing %r x %d (+%r, %r) took %.2f s CPU' % (case['pump'], case['reps'], case['prefix'], case['suffix'], dt))
    nt = False
    ri = case.get('rule')
    if ri is not None and ri < len(current_rules()):
        rx = _compiled(ri)
        two = len(case['pump']) * 2
        for pos in (0, len(case['prefix'])):
            m = rx.match(text, pos)
            if m and m.end() - pos >= two:
                nt = True
    else:
        nt = True
    res.nontrivial = nt
    res.labels = ['len>1000'] * (len(text) > 1000) + ['slowest-bucket:%s' % ('>0.1s' if dt > 0.1 else '>0.01s' if dt > 0.01 else '<=0.01s')]
    res.sample = {'prefix': case['prefix'], 'pump': case['pump'], 'reps': case['reps'], 'suffix': case['suffix'], 'cpu_s': round(dt, 4)}
    return res


def _enum(tier):
    return regexpump.candidates(current_rules(), tier)


@st.composite
def drawn(draw):
    union = []
    for rx, _ in current_rules():
        for c in regexpump.alphabet(rx):
            if c not in union:
                union.append(c)
    union += ['\n', 'é', ' ']
    frag = st.one_of(st.sampled_from(union), st.sampled_from(union), st.sampled_from(chars.FRAGMENTS))
    pump = ''.join(draw(st.lists(frag, min_size=1, max_size=6)))
    pre = ''.join(draw(st.lists(frag, max_size=2)))
    suf = draw(st.sampled_from(['', '\x01', "'", '"', '*/', '$$', '\n']))
    total = draw(st.sampled_from([60, 60, 300, 3000]))
    return {'rule': None, 'prefix': pre, 'pump': pump, 'reps': max(2, total // len(pump)), 'suffix': suf}


def current_rules():
    """the patterns the default lexer actually applies (its compiled rules), falling back to the source table"""
    try:
        lx = lexer.Lexer.get_default_instance()
        rules = [(m.__self__.pattern, tt) for m, tt in lx._SQL_REGEX]
        if rules:
            return rules
    except Exception:
        pass
    return list(keywords.SQL_REGEX)


def _directed(tier):
    return regexpump.directed(current_rules(), tier)


LEGS = [Leg('loops', check=check, enumerate=_directed, cpu_limit=20),
        Leg('enumerated', check=check, enumerate=_enum, cpu_limit=20),
        Leg('drawn', check=check, strategy=lambda tier: drawn(), examples={'quick': 6000, 'thorough': 100000}, cpu_limit=20)]
