"""C17 Procedural bodies (CREATE ... BEGIN ... END;) stay one statement (DESIGN.md section 6, C17)."""
import sqlparse

from gen import grammar as G, proc
from props import _split
from vlib.core import Leg, Result, exc_failure, excluded_hazards

ID = 'C17'
RULE = ('cases: p in [0,3] plain statements, one CREATE [OR REPLACE] FUNCTION|PROCEDURE|TRIGGER with a BEGIN ... END body from the procedural grammar '
        '(nested BEGIN..END, IF..ELSIF..ELSE..END IF, WHILE..DO..END WHILE, LOOP..END LOOP, FOR/WHILE..LOOP..END LOOP, CASE..END CASE, CASE expressions incl. '
        'nested, DECLARE sections in front of and inside BEGIN with variable and cursor declarations (c CURSOR FOR query, CURSOR c IS query FOR UPDATE), handlers, OPEN c FOR, SELECT .. FOR UPDATE, nested DDL, labels; depth <=3), q in [0,3] plain statements, every statement ;-terminated, drawn whitespace/comments/casing; '
        'split()/parse() must return exactly the p+1+q statements with every lexeme inside the piece of its own statement. non-trivial: body has >=2 '
        'construct kinds, block nesting >=2 and q>=1 (a swallow is observable); distinct by script text')
ASSUMPTIONS = ['multi-word keywords are written with single inner blanks (respelling is C11)',
               'constructs of listed known findings (F4a-d) are not generated in the main leg and are attributed in the hazard leg']


def check(case):
    laid = case['lex']
    text, clean, spans, marks = G.assemble(laid)
    res = Result(key=text)
    hz = proc.hazards_of(laid)
    suffix = (':' + '+'.join(hz)) if hz else ''
    try:
        pieces = sqlparse.split(text)
        nparse = len(sqlparse.parse(text))
    except Exception as e:
        res.failures.append(exc_failure('raises', e))
        return res
    _split.check_extents(res, text, clean, spans, marks, pieces, nparse, suffix)
    stmts = [m for m in marks if m['k'] == 'stmt']
    ci = next(i for i, m in enumerate(stmts) if m['info'].get('proc'))
    q = len(stmts) - 1 - ci
    cm = stmts[ci]
    kinds = set()
    depth = maxdepth = 0
    for l in clean[cm['s']:cm['e']]:
        if l[0] != 'kw':
            continue
        w = l[3].get('canon', l[1]).upper()
        if w in ('BEGIN', 'IF', 'WHILE', 'LOOP', 'FOR', 'CASE', 'DECLARE'):
            kinds.add(w)
        if w in ('BEGIN', 'IF', 'LOOP', 'DO'):
            depth += 1
            maxdepth = max(maxdepth, depth)
        elif w in ('END', 'END IF', 'END LOOP', 'END WHILE'):
            depth -= 1
    res.nontrivial = len(kinds) >= 2 and maxdepth >= 2 and q >= 1
    res.labels = ['q>=1'] * (q >= 1) + ['nest>=2'] * (maxdepth >= 2) + ['kind:' + k for k in sorted(kinds)] + ['hazard:' + h for h in hz]
    res.sample = {'text': text[:400], 'statements': len(stmts)}
    return res


def _main(tier):
    return proc.script(exclude=frozenset(excluded_hazards(ID)), inner=False).map(lambda laid: {'lex': laid})


def _hazard(tier):
    return proc.script(exclude=frozenset(), inner=False).map(lambda laid: {'lex': laid})


LEGS = [Leg('main', check=check, strategy=_main, examples={'quick': 8000, 'thorough': 200000}),
        Leg('hazard', check=check, strategy=_hazard, examples={'quick': 2000, 'thorough': 40000}, hazard_leg=True)]
