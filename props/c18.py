"""C18 Statement.get_type() names the statement's leading DML/DDL keyword (DESIGN.md section 6, C18)."""
from hypothesis import strategies as st

import sqlparse
from sqlparse import keywords as K, tokens as T

from gen import grammar as G
from gen.grammar import L, kw, W, seq
from vlib.core import Leg, Result, exc_failure, excluded_hazards

ID = 'C18'
RULE = ('cases: scripts of 1-3 statements: grammar statements (SELECT/INSERT/UPDATE/DELETE/CREATE [OR REPLACE]/DROP/ALTER, WITH [RECURSIVE] 1-3 CTEs followed by '
        'each DML) and one-line statements led by another DML/DDL word or by a non-DML/DDL word, parenthesis or name (expected UNKNOWN); leg long-statements: WITH/INSERT/UPDATE/CREATE statements with 300-5000 list items or rows (up to ~40 000 tokens), enumerated; leg cte-names: every dictionary word that is not a DML/DDL/CTE keyword (minus GO, WHERE, AS, RECURSIVE) as the name of a CTE in three templates, enumerated completely; each statement gets a '
        'drawn prefix of whitespace, block/line comments and hints (bodies contain other statements\' keywords), drawn per-word casing, drawn inner whitespace of '
        'multi-word keywords and comments at any later gap; expected string comes from the generator\'s role tag / dictionary data. non-trivial: non-empty prefix '
        'or non-canonical casing, and statement of >=6 lexemes; distinct by script text')
ASSUMPTIONS = ['expected type of single-word leaders is looked up in the keyword dictionaries as data (first dictionary in documented order wins)']

HAZ_PAREN = 'leading_kw_tight_paren'
HAZ_CTE = 'comment_between_as_and_paren_in_cte'
DICT_ORDER = ['KEYWORDS_COMMON', 'KEYWORDS_ORACLE', 'KEYWORDS_MYSQL', 'KEYWORDS_PLPGSQL', 'KEYWORDS_HQL', 'KEYWORDS_MSACCESS',
              'KEYWORDS_SNOWFLAKE', 'KEYWORDS_BIGQUERY', 'KEYWORDS']


def dict_type(word):
    up = word.upper()
    for name in DICT_ORDER:
        d = getattr(K, name)
        if up in d:
            return d[up]
    return T.Name


def expected_for(word):
    t = dict_type(word)
    return word.upper() if t in (T.Keyword.DML, T.Keyword.DDL) else 'UNKNOWN'


ONE_LINERS = ['COMMIT', 'ROLLBACK', 'TRUNCATE TABLE t', 'MERGE INTO t USING s ON a = b', 'REPLACE INTO t VALUES ( 1 )', 'EXPLAIN SELECT 1', 'SHOW TABLES',
              'GRANT SELECT ON t TO r', 'SET x = 1', 'BEGIN', 'VALUES ( 1 )', 'foo bar', 'x', 'ANALYZE t', 'USE db', 'CALL p ( 1 )', 'VACUUM',
              'END', 'DECLARE c CURSOR', '1', "'select'", '"select" a', 'UPSERT INTO t VALUES ( 1 )']


# WITH statements whose main keyword is followed by a parenthesis, AS or a column list ("ignoring everything after the
# leading keyword"): the type is the DML keyword after the CTE definitions
CTE_LINERS = [('WITH x AS ( SELECT 1 AS a ) SELECT ( a ) FROM x', 'SELECT'), ('WITH x AS ( SELECT 1 ) SELECT ( SELECT 2 ) , a FROM x', 'SELECT'),
              ('WITH v AS ( SELECT 1 ) UPDATE ( SELECT * FROM t ) SET a = 1', 'UPDATE'), ('WITH x AS ( SELECT 1 ) SELECT AS STRUCT a FROM x', 'SELECT'),
              ('WITH x AS ( SELECT 1 ) , y ( c ) AS ( SELECT 2 ) DELETE FROM t', 'DELETE'), ('WITH x AS ( SELECT 1 ) INSERT INTO t ( a ) SELECT * FROM x', 'INSERT'),
              ('WITH RECURSIVE r ( n ) AS ( SELECT 1 ) SELECT ( n ) + 1 FROM r', 'SELECT'), ('WITH x AS ( SELECT 1 ) MERGE INTO t USING x ON a = b', 'MERGE'),
              ('WITH x AS ( SELECT 1 ) SELECT DISTINCT ( a ) FROM x', 'SELECT'), ('WITH x AS ( SELECT 1 ) INSERT INTO t SELECT ( a ) FROM x', 'INSERT')]


def cte_liner(t):
    st_ = one_liner(t[0])
    st_[0][3]['type'] = t[1]
    return st_


def one_liner(text):
    words = text.split()
    lex = []
    for i, w in enumerate(words):
        if w == '(':
            lex.append(L('lp', '('))
        elif w == ')':
            lex.append(G.RP())
        elif w[0].isdigit():
            lex.append(L('num', w))
        elif w[0] in '\'"':
            lex.append(L('str' if w[0] == "'" else 'qname', w))
        elif w == '=':
            lex.append(L('cmp', '='))
        elif w == ',':
            lex.append(G.P(','))
        elif w in '*+':
            lex.append(G.opl(w))
        elif w.isupper():
            lex.append(kw(w))
        else:
            lex.append(L('name', w))
    first = words[0]
    exp = expected_for(first) if first.isupper() else 'UNKNOWN'
    return W('stmt', lex, type=exp, oneliner=True)


paren_led = G.select(0).map(lambda s: W('stmt', G.paren(s), type='UNKNOWN', oneliner=True))

_pbody = G.frag_text('abc ;x,*-é:\t', ['select', 'insert into', 'update', 'create table', 'delete', 'with', 'END', "it's", '"q', 'drop'], 0, 4)
PREFIX_ITEM = st.one_of(
    st.sampled_from([' ', '\n', '\t', '  ', '\r\n', '\n\n ']),
    _pbody.map(lambda s: '/*' + G._noterm(s) + '*/'),
    _pbody.map(lambda s: '--' + s.replace('\n', ' ') + '\n'),
    _pbody.map(lambda s: '/*+ ' + G._noterm(s) + '*/'),
    _pbody.map(lambda s: '--+ ' + s + '\n'),
    _pbody.map(lambda s: '# c' + s + '\n'),
)


@st.composite
def cases(draw, hazard):
    k = draw(st.integers(1, 3))
    lex = []
    prefixes = []
    raw, pool = draw(G.predrawn_layout(8))
    all_items = [draw(st.lists(PREFIX_ITEM, max_size=4)) for _ in range(k)]       # small things first
    semis = draw(st.booleans())
    for i in range(k):
        s = draw(st.one_of(G.statement(True), G.statement(True), G.statement(True), st.sampled_from(ONE_LINERS).map(one_liner), st.sampled_from(CTE_LINERS).map(cte_liner), paren_led))
        items = all_items[i]
        pre = ''
        for it in items:
            if it.startswith('#') and pre and not pre[-1].isspace():
                pre += ' '
            pre += it
        prefixes.append(pre)
        lex.extend(s)
        if i < k - 1 or semis:
            lex.append(list(G.SEMI))
    laid = draw(G.layout(lex, comments=8, raw=raw, pool=pool))
    # write the prefix into the gap of each statement's first lexeme
    si = 0
    first = True
    for idx, l in enumerate(laid):
        if l[0] == 'mark':
            if l[3].get('k') == 'stmt' and l[3].get('m') == 'o':
                first = True
            continue
        if first:
            pre = prefixes[si]
            si += 1
            gap = l[3].get('gap', '')
            if idx and gap == '':
                gap = ''
            # a '--' comment glued after ';' on the same line would belong to the previous statement: start on a new line
            if si > 1:
                gap = gap + '\n'
            l[3]['gap'] = gap + pre
            l[3]['prefix'] = pre
            first = False
    return {'lex': laid, 'hazard': hazard}


def cte_comment_hazard(clean):
    """comment between AS and '(' of a CTE definition, or directly before the DML keyword that follows the CTEs"""
    for i in range(1, len(clean)):
        if clean[i][0] == 'comment':
            prev = clean[i - 1]
            if prev[0] == 'kw' and prev[3].get('canon', prev[1]).upper() in ('AS', 'WITH', 'RECURSIVE'):
                return True
            if i + 1 < len(clean) and clean[i + 1][3].get('lead') and prev[0] == 'rp':
                return True
            if prev[0] in ('rp', 'name') and i + 1 < len(clean) and clean[i + 1][0] in ('lp', 'punct', 'kw'):
                return True
    return False


def check(case):
    laid = case['lex']
    text, clean, spans, marks = G.assemble(laid)
    res = Result(key=text)
    stmts = [m for m in marks if m['k'] == 'stmt']
    try:
        parsed = sqlparse.parse(text)
        got = [s.get_type() for s in parsed]
    except Exception as e:
        res.failures.append(exc_failure('raises', e))
        return res
    exp = [m['info']['type'] for m in stmts]
    if len(parsed) != len(stmts):
        res.fail('statement-count', '%d/%d' % (len(parsed), len(stmts)), 'parse gives %d statements, written %d; text %r' % (len(parsed), len(stmts), text[:200]))
    else:
        for i, (g, e) in enumerate(zip(got, exp)):
            if g != e:
                m = stmts[i]
                body = [l for l in clean[m['s']:m['e']] if l[0] != 'comment']
                is_cte = bool(body and body[0][3].get('lead_cte'))
                hz = ''
                if is_cte and cte_comment_hazard(body):
                    hz = ':' + HAZ_CTE
                lead_word = body[0][1] if body else ''
                ws_inside = ' '.join(lead_word.split()) != lead_word and ' '.join(g.split()) == e
                sig = ('cte' if is_cte else 'multiword-spelling' if ws_inside else 'oneliner' if m['info'].get('oneliner') else 'plain') + hz
                res.fail('type', sig, 'statement %d: get_type()=%r, expected %r; statement %r' % (i, g, e, text[spans[m['s']][0]:spans[m['s']][0] + 120]))
    nontriv = False
    for m in stmts:
        body = [l for l in clean[m['s']:m['e']] if l[0] != 'comment']
        if not body:
            continue
        pre = clean[m['s']][3].get('prefix', '')
        noncanon = body[0][1] != body[0][1].upper() or ' '.join(body[0][1].split()) != body[0][1]
        if (pre.strip() or noncanon) and len(body) >= 6:
            nontriv = True
    res.nontrivial = nontriv
    res.labels = ['type:' + e for e in exp] + ['prefix-comment'] * any('/*' in (clean[m['s']][3].get('prefix', '')) or '--' in (clean[m['s']][3].get('prefix', '')) for m in stmts if m['e'] > m['s']) + \
        ['cte'] * any(clean[m['s']][3].get('lead_cte') for m in stmts if m['e'] > m['s'])
    res.sample = {'text': text[:300], 'expected': exp}
    return res


@st.composite
def tight_paren_cases(draw):
    """hazard leg for F12a: the leading DML keyword directly followed by '(' (select(1) ...)"""
    e = draw(G.expr(1))
    rest = draw(st.one_of(st.just([]), G.column_ref.map(lambda t: seq(kw('FROM', clause=True), t))))
    lex = W('stmt', seq(L('kw', 'SELECT', False, lead='SELECT'), L('lp', '(', True, force=True), G.tight_first(e), G.RP(), rest), type='SELECT')
    laid = draw(G.layout(lex, comments=0))
    return {'lex': laid, 'hazard': True}


def check_tight(case):
    res = check(case)
    for f in res.failures:
        if f.clause == 'type':
            f.sig = f.sig + ':' + HAZ_PAREN
    res.labels.append('hazard:' + HAZ_PAREN)
    return res


LEADERS = ['SELECT', 'select', 'Insert', 'UPDATE', 'delete', 'CREATE', 'drop', 'ALTER', 'truncate', 'MERGE', 'create or replace', 'WITH a AS (SELECT 1) select',
           'with recursive x(n) as (select 1), y as (select 2) Update']
# followers that are separate tokens by the lexer's documented rules ('$1' would continue the word, '.5' makes it a
# qualifier, '::int' is a cast of the word itself: those are other statements, not "the keyword followed by something")
FOLLOWERS = ['[a] from t', '[a]', '*from t', '*', '"x" from t', "'s'", '-1', '+1', '@v', ':p', '/*c*/ x', '--c\nx', ';', '`q`', '%s', '?', ',a', '\tx', '\nx', '']


def tight_follow_enum(tier):
    for a in LEADERS:
        for b in FOLLOWERS:
            for pre in ('', '/* c */ ', '-- c\n  '):
                yield {'text': pre + a + b, 'expected': a.split()[-1].upper() if not a.lower().startswith('create or') else 'CREATE OR REPLACE', 'follower': b}


def check_tight_follow(case):
    res = Result(key=case['text'], nontrivial=True)
    try:
        got = sqlparse.parse(case['text'])[0].get_type()
    except Exception as e:
        res.failures.append(exc_failure('raises', e))
        return res
    if got != case['expected']:
        res.fail('type', 'tight-follow:' + repr(case['follower'][:1]), 'get_type() of %r is %r, expected %r (the answer must ignore what follows the leading keyword)' % (case['text'], got, case['expected']))
    res.labels = ['tight-follow']
    res.sample = {'text': case['text'], 'expected': case['expected']}
    return res


CTE_TEMPLATES = [('WITH %s AS (SELECT 1) SELECT * FROM %s', 'SELECT'), ('with a as (select 1), %s (n) as (select 2)\ndelete from t where n in (select n from %s)', 'DELETE'),
                 ('/* c */ With %s As (Select 1) Insert Into t Select * From %s', 'INSERT')]
CTE_NAME_EXCLUDED = {'GO', 'WHERE', 'AS', 'RECURSIVE'}       # statement structure by documented rules: batch separator, clause opener, CTE syntax


def _cte_names(tier):
    """every dictionary word that is not itself a DML/DDL/CTE keyword, used as the name of a CTE (non-reserved words are
    legal names): the type is the DML keyword after the CTE definitions"""
    words = set()
    for name in DICT_ORDER:
        words |= set(getattr(K, name))
    for w in sorted(words):
        if not w.replace('_', '').isalnum() or w[0].isdigit() or w in CTE_NAME_EXCLUDED:
            continue
        if dict_type(w) in (T.Keyword.DML, T.Keyword.DDL, T.Keyword.CTE):
            continue
        for i, (tpl, exp) in enumerate(CTE_TEMPLATES):
            name = w.lower() if i != 2 else w.capitalize()
            yield {'text': tpl % (name, name), 'expected': exp, 'word': w}


def check_cte_name(case):
    res = Result(key=case['text'], nontrivial=True)
    try:
        got = [s.get_type() for s in sqlparse.parse(case['text'])]
    except Exception as e:
        res.failures.append(exc_failure('raises', e))
        return res
    if got != [case['expected']]:
        res.fail('type', 'cte-name', 'get_type() of %r is %r, expected %r (the DML keyword after the CTE definitions)' % (case['text'], got, [case['expected']]))
    res.labels = ['cte-name']
    res.sample = {'text': case['text']}
    return res


def _long_statements(tier):
    """statements of thousands of tokens: the answer does not depend on what follows the leading keyword, however long it is"""
    sizes = [300, 1300, 2500, 3400, 5000] + ([12000] if tier != 'quick' else [])
    for n in sizes:
        ids = ', '.join(str(i) for i in range(n))
        rows = ',\n'.join('(%d, %d)' % (i, i * i) for i in range(n))
        yield {'text': 'with old as (select id from t where ts < 5) delete from t where id in (%s)' % ids, 'expected': 'DELETE', 'word': n}
        yield {'text': '/* load */ With src As (Select max(id) As m From seq) Insert Into t (a, b) Values\n%s' % rows, 'expected': 'INSERT', 'word': n}
        yield {'text': 'WITH a AS (SELECT 1), b AS (SELECT 2) UPDATE t SET x = 1 WHERE id IN (%s)' % ids, 'expected': 'UPDATE', 'word': n}
        yield {'text': 'insert into t (a, b) values\n%s' % rows, 'expected': 'INSERT', 'word': n}
        yield {'text': 'create table t as select %s from u' % ids, 'expected': 'CREATE', 'word': n}


def check_long_statement(case):
    res = check_cte_name(case)
    res.key = [case['text'][:60], case['word']]
    res.labels = ['long-statement']
    res.sample = {'text': case['text'][:80], 'items': case['word']}
    return res


LEGS = [Leg('long-statements', check=check_long_statement, enumerate=_long_statements, exhaustive=True, max_shards=8),
        Leg('cte-names', check=check_cte_name, enumerate=_cte_names, exhaustive=True),
        Leg('tight-follow', check=check_tight_follow, enumerate=tight_follow_enum, exhaustive=True, max_shards=4),
        Leg('tight-paren', check=check_tight, strategy=lambda tier: tight_paren_cases(), examples={'quick': 300, 'thorough': 3000}, hazard_leg=True),
        Leg('main', check=check, strategy=lambda tier: cases(False), examples={'quick': 8000, 'thorough': 200000})]
