"""C19 All input forms and front ends give the same result (DESIGN.md section 6, C19)."""
import io
import os
import shutil
import sys
import tempfile

from hypothesis import strategies as st

import sqlparse
from sqlparse import cli

from gen import grammar as G, options as O, chars
from oracles.treecheck import flat_shape as shape
from vlib.core import Leg, Result, exc_failure

ID = 'C19'
RULE = ('long-streams: texts of 66 000-140 000 characters built from statements with multi-line comments, literals, dollar bodies and keywords, as stream / bytes vs str. API cases: encoding e in {utf-8, latin-1, cp1252, cp1251, gbk, shift_jis, koi8-r, utf-16; API forms also utf-16-le, utf-32-be, utf-7, iso2022_jp, hz} x text = grammar script (4/8), CASE-heavy script (2/8), GO-only batches without any semicolon (1/8), any text of the shared source mix (1/8, API only), with characters drawn from what e can encode '
        '(construction) x form in {str, bytes+encoding=e, UTF-8 bytes without encoding, non-UTF-8 Latin-1 bytes without encoding, io.StringIO} x function in {parse, '
        'parsestream, split, format + drawn valid options}; results must equal those for the str form (statement texts, tree shapes, get_type). CLI cases: argv built from '
        'a drawn option set via a flag table written from --help, input as file or stdin bytes in e, output to stdout or -o; sqlparse.cli.main(argv) in-process; the '
        'output must equal format(text as Python text mode decodes it, **options), return code 0, nothing on stderr. non-trivial: text has >=1 non-ASCII character and '
        '>=2 statements; distinct by (text, encoding, form/function or argv)')
ASSUMPTIONS = ['the CLI reads a text file: expected decoding is Python text-mode (universal newlines)',
               'CLI options whose argparse type is bool are only passed with an unambiguous truthy value (--comma_first True); "False" would be truthy by argparse design',
               'non-UTF-8 bytes without encoding are Latin-1 (docs/source/api.rst)']

ENCODINGS = ['utf-8', 'latin-1', 'cp1252', 'cp1251', 'gbk', 'shift_jis', 'koi8-r', 'utf-16']
SAMPLE_CHARS = {
    'utf-8': 'éÀЖ中😀ß€', 'latin-1': 'éÀßñ¿Ø', 'cp1252': 'éÀß€œ', 'cp1251': 'ЖжЯёЩ', 'gbk': '中文数据库', 'shift_jis': '日本語テスト',
    'koi8-r': 'ЖжЯфы', 'utf-16': 'éЖ中😀',
    'utf-16-le': 'éЖ中😀', 'utf-32-be': 'éЖ中😀', 'utf-7': 'éЖ中+-', 'iso2022_jp': '日本語テスト', 'hz': '中文数据库~',
}
# codecs that are not ASCII supersets (API forms only): ASCII text is not its own encoding, 7-bit bytes are not ASCII text
ENCODINGS_API = ENCODINGS + ['utf-16-le', 'utf-32-be', 'utf-7', 'iso2022_jp', 'hz']


def sprinkle(laid, enc, draw):
    """replace the bodies of some names/strings/comments by characters the encoding can represent"""
    pool = SAMPLE_CHARS[enc]
    out = []
    for l in laid:
        if l[0] in ('str', 'qname', 'comment', 'name') and draw(st.integers(0, 3)) == 0:
            extra = ''.join(draw(st.lists(st.sampled_from(pool), min_size=1, max_size=3)))
            t = l[1]
            meta = dict(l[3])
            if l[0] == 'str':
                t = t[:-1] + extra + "'"
            elif l[0] == 'qname':
                t = t[:-1] + extra + t[-1]
            elif l[0] == 'comment':
                t = (t[:-2] + extra + '*/') if t.startswith('/*') else (t.rstrip('\r\n') + extra + '\n')
            else:
                t = t + extra
            out.append([l[0], t, l[2], meta])
        else:
            out.append(l)
    return out


GO_SEPARATORS = ['\nGO\n', ' go ', '\nGo 2\n', '\ngo\n\n', '\r\nGO\r\n', '\nGO -- batch\n']


@st.composite
def texts(draw, enc, wide=False):
    mode = draw(st.integers(0, 7))
    if mode == 0 and wide:
        # anything at all (soups, damaged scripts, procedural bodies, batches): the relation holds for every str
        from gen import sources
        text = draw(sources.any_text())
    elif mode == 1:
        # batches separated by GO only: no semicolon anywhere in the text
        k = draw(st.integers(1, 3))
        seps = [draw(st.sampled_from(GO_SEPARATORS)) for _ in range(k)]
        parts = [G.assemble(sprinkle(draw(G.script(1, 1, comments=3, last_semi=False)), enc, draw))[0] for _ in range(k)]
        text = ''.join(p + sp for p, sp in zip(parts, seps))
        if draw(st.booleans()):
            text = text.rstrip() if draw(st.booleans()) else text + 'select 1'
    else:
        # 2/8 CASE-heavy statements (the formatter options that only act on CASE, calls and operators get something to do)
        laid = draw(G.script(1, 2, comments=6, stmt=G.case_heavy_select())) if mode in (2, 3) else draw(G.script(1, 3, comments=10))
        laid = sprinkle(laid, enc, draw)
        text = G.assemble(laid)[0]
    if enc in ('utf-8', 'utf-16') and draw(st.integers(0, 5)) == 0:
        # characters that decoders like to treat specially: byte-order mark, zero-width space, NUL, line/paragraph separators
        text = draw(st.sampled_from(['\ufeff', '\ufeff\ufeff', '\u200b', '\x00', '\u2028', '\ufffe', '\x1a'])) + text
    try:
        text.encode(enc)
    except UnicodeEncodeError:
        text = text.encode(enc, 'replace').decode(enc)
    return text


@st.composite
def api_cases(draw):
    enc = draw(st.sampled_from(ENCODINGS_API))
    func = draw(st.sampled_from(['parse', 'parsestream', 'split', 'format']))
    opts = draw(O.valid_options()) if func == 'format' else {}
    form = draw(st.sampled_from(['bytes+encoding', 'bytes+encoding', 'utf8-bytes', 'latin1-bytes', 'stream', 'bytes-stream?'][:5]))
    text = draw(texts(enc, wide=True))          # the big structure last
    if form == 'latin1-bytes':
        # text that Latin-1 can encode and that is NOT valid UTF-8
        text = text.encode('latin-1', 'replace').decode('latin-1') + draw(st.sampled_from([" -- \xe9", " /*\xff*/", "; select '\xe9\\n'", " '\xa0\\x'"]))
    return {'enc': enc, 'text': text, 'func': func, 'opts': opts, 'form': form}


def call(func, arg, opts, encoding=None):
    if func == 'parse':
        r = sqlparse.parse(arg, encoding)
        return [(str(s), shape(s), s.get_type()) for s in r]
    if func == 'parsestream':
        r = list(sqlparse.parsestream(arg, encoding))
        return [(str(s), shape(s), s.get_type()) for s in r]
    if func == 'split':
        return sqlparse.split(arg, encoding)
    return sqlparse.format(arg, encoding=encoding, **dict(opts))


def check_api(case):
    text, enc, func, opts, form = case['text'], case['enc'], case['func'], case['opts'], case['form']
    res = Result(key=[text, enc, func, form, sorted(opts.items())])
    try:
        ref = call(func, text, opts)
    except Exception as e:
        res.failures.append(exc_failure('raises-str', e))
        return res
    try:
        if form == 'bytes+encoding':
            got = call(func, text.encode(enc), opts, enc)
        elif form == 'utf8-bytes':
            got = call(func, text.encode('utf-8', 'surrogatepass'), opts)
        elif form == 'latin1-bytes':
            got = call(func, text.encode('latin-1'), opts)
        else:
            got = call(func, io.StringIO(text), opts)
    except Exception as e:
        f = exc_failure('raises-form', e)
        f.sig = form + ':' + f.sig
        res.failures.append(f)
        return res
    if got != ref:
        res.fail('differs', form + ':' + func, '%s(%s) differs from %s(str); encoding %s; text %r' % (func, form, func, enc, text[:160]))
    if func == 'parse':
        try:
            ps = [(str(s), shape(s), s.get_type()) for s in sqlparse.parsestream(io.StringIO(text))]
            if ps != ref:
                res.fail('differs', 'parsestream-vs-parse', 'parsestream yields other statements than parse; text %r' % text[:160])
        except Exception as e:
            res.failures.append(exc_failure('raises-form', e))
    nonascii = any(ord(c) > 127 for c in text)
    res.labels = ['no-semicolon'] * (';' not in text)
    nst = len(ref) if isinstance(ref, list) else text.count(';') + 1
    res.nontrivial = nonascii and nst >= 2
    res.labels += ['enc:' + enc, 'form:' + form, 'func:' + func] + ['non-ascii'] * nonascii
    res.sample = {'text': text[:160], 'encoding': enc, 'form': form, 'func': func}
    return res


# ---- CLI ----------------------------------------------------------------------------------------------------------
# flag <-> option table written from `sqlformat --help`
FLAGS = {
    'keyword_case': lambda v: ['-k', v], 'identifier_case': lambda v: ['-i', v], 'output_format': lambda v: ['-l', v],
    'strip_comments': lambda v: ['--strip-comments'], 'reindent': lambda v: ['-r'], 'indent_width': lambda v: ['--indent_width', str(v)],
    'indent_after_first': lambda v: ['--indent_after_first'], 'indent_columns': lambda v: ['--indent_columns'], 'reindent_aligned': lambda v: ['-a'],
    'use_space_around_operators': lambda v: ['-s'], 'wrap_after': lambda v: ['--wrap_after', str(v)], 'comma_first': lambda v: ['--comma_first', 'True'],
    'compact': lambda v: ['--compact', 'True'],
}
LONG = {'-k': '--keywords', '-i': '--identifiers', '-l': '--language', '-r': '--reindent', '-a': '--reindent_aligned', '-s': '--use_space_around_operators'}


@st.composite
def cli_cases(draw):
    enc = draw(st.sampled_from(ENCODINGS))
    opts = {}
    names = sorted(FLAGS)
    bits = draw(O.bitset(len(names)))
    for i, n in enumerate(names):
        if bits >> i & 1:
            if n in ('keyword_case', 'identifier_case'):
                opts[n] = draw(st.sampled_from(O.CASES))
            elif n == 'output_format':
                opts[n] = draw(st.sampled_from(['python', 'php']))
            elif n == 'indent_width':
                opts[n] = draw(st.integers(1, 8))
            elif n == 'wrap_after':
                opts[n] = draw(st.integers(0, 80))
            else:
                opts[n] = True
    if enc not in ('utf-8', 'utf-16'):
        # re-casing a letter may leave a legacy code page (é -> É is not in GBK): the output would not be representable
        opts.pop('identifier_case', None)
    infile, outfile, long_, explicit = draw(st.booleans()), draw(st.booleans()), draw(st.booleans()), draw(st.booleans()) if enc == 'utf-8' else True
    crlf = draw(st.sampled_from([None, '\n', '\r\n']))
    text = draw(texts(enc))          # the big structure last
    if crlf:
        text = text.replace('\n', crlf)
    return {'enc': enc, 'text': text, 'opts': opts, 'infile': infile, 'outfile': outfile, 'long': long_, 'explicit_enc': explicit}


class _Stdin:
    def __init__(self, data):
        self.buffer = io.BytesIO(data)


def run_cli(argv, stdin_bytes):
    old = sys.stdin, sys.stdout, sys.stderr
    out = io.StringIO(newline='')
    err = io.StringIO()
    sys.stdin, sys.stdout, sys.stderr = _Stdin(stdin_bytes or b''), out, err
    try:
        try:
            rc = cli.main(argv)
        except SystemExit as e:
            rc = 'SystemExit(%r)' % (e.code,)
    finally:
        sys.stdin, sys.stdout, sys.stderr = old
    return rc, out.getvalue(), err.getvalue()


def check_cli(case):
    enc, text, opts = case['enc'], case['text'], case['opts']
    res = Result(key=[text, enc, sorted(opts.items()), case['infile'], case['outfile']])
    data = text.encode(enc)
    decoded = io.TextIOWrapper(io.BytesIO(data), encoding=enc).read()       # what a text-mode read yields
    try:
        expected = sqlparse.format(decoded, **dict(opts))
    except Exception as e:
        res.failures.append(exc_failure('raises-format', e))
        return res
    argv = []
    for n in sorted(opts):
        fl = FLAGS[n](opts[n])
        if case['long'] and fl[0] in LONG:
            fl = [LONG[fl[0]]] + fl[1:]
        argv += fl
    if case['explicit_enc']:
        argv += ['--encoding', enc]
    d = tempfile.mkdtemp(prefix='c19-')
    try:
        if case['infile']:
            fi = os.path.join(d, 'in.sql')
            with open(fi, 'wb') as f:
                f.write(data)
            argv = [fi] + argv
            stdin = None
        else:
            argv = ['-'] + argv
            stdin = data
        fo = None
        if case['outfile']:
            fo = os.path.join(d, 'out.sql')
            argv += ['-o', fo]
        try:
            rc, out, err = run_cli(argv, stdin)
        except Exception as e:
            res.failures.append(exc_failure('cli-raises', e))
            return res
        if rc != 0 or err:
            res.fail('cli-status', str(rc), 'argv %r: return %r, stderr %r' % (argv[1:], rc, err[:200]))
        else:
            if fo:
                with open(fo, 'rb') as f:
                    raw = f.read()
                try:
                    got = raw.decode(enc)
                except UnicodeDecodeError:
                    got = None
                    res.fail('cli-output', 'outfile-not-in-encoding', 'argv %r: the output file is not valid %s' % (argv[1:], enc))
                if out != '':
                    res.fail('cli-output', 'stdout-with-outfile', 'stdout not empty although -o was given')
            else:
                got = out
            if got is not None and got != expected:
                i = next((i for i, (a, b) in enumerate(zip(got, expected)) if a != b), min(len(got), len(expected)))
                res.fail('cli-output', ('file' if fo else 'stdout') + ':' + ('infile' if case['infile'] else 'stdin'),
                         'argv %r encoding %s: CLI output differs from format() at %d: %r vs %r' % (argv[1:], enc, i, got[max(0, i - 20):i + 20], expected[max(0, i - 20):i + 20]))
    finally:
        shutil.rmtree(d, ignore_errors=True)
    nonascii = any(ord(c) > 127 for c in text)
    res.nontrivial = nonascii and text.count(';') >= 1
    res.labels = ['cli', 'enc:' + enc] + ['flag:' + n for n in opts] + ['infile' if case['infile'] else 'stdin', 'outfile' if case['outfile'] else 'stdout'] + ['crlf'] * ('\r\n' in text)
    res.sample = {'argv': argv[1:], 'encoding': enc, 'text': text[:120]}
    return res


LONG_UNITS = ["select a, /* a comment\n   over ; two lines */ b from t where c = 'x';\n",
              "insert into t values ('first line\nsecond ; line', 1);\n",
              "select 1 from t\norder\nby a;\n",
              "create function f() returns int as $$\nbegin\n  return 1;\nend;\n$$;\n",
              "select 'é' -- note ;\nfrom u;\n"]


@st.composite
def long_stream_cases(draw):
    """inputs longer than any I/O block size (64 Ki, 128 Ki characters) whose multi-line tokens lie across every offset"""
    target = draw(st.sampled_from([66000, 70000, 131500, 140000]))
    pad = draw(st.integers(0, 40))
    units = [draw(st.sampled_from(LONG_UNITS)) for _ in range(6)]
    text = ' ' * pad
    i = 0
    while len(text) < target:
        text += units[i % len(units)]
        i += 1
    func = draw(st.sampled_from(['split', 'parse', 'format', 'parsestream']))
    opts = draw(st.sampled_from([{}, {'strip_comments': True}, {'keyword_case': 'upper'}])) if func == 'format' else {}
    form = draw(st.sampled_from(['stream', 'stream', 'bytes+encoding', 'utf8-bytes']))
    return {'enc': 'utf-8', 'text': text, 'func': func, 'opts': opts, 'form': form}


def check_long(case):
    res = check_api(case)
    res.key = [len(case['text']), case['text'][:120], case['func'], case['form'], sorted(case['opts'].items())]
    res.labels = ['long-input', 'form:' + case['form'], 'func:' + case['func']]
    res.sample = {'length': len(case['text']), 'form': case['form'], 'func': case['func']}
    res.nontrivial = True
    return res


LEGS = [Leg('long-streams', check=check_long, strategy=lambda tier: long_stream_cases(), examples={'quick': 48, 'thorough': 600}),
        Leg('api', check=check_api, strategy=lambda tier: api_cases(), examples={'quick': 6000, 'thorough': 100000}),
        Leg('cli', check=check_cli, strategy=lambda tier: cli_cases(), examples={'quick': 1500, 'thorough': 10000})]
