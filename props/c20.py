"""C20 Results depend only on input and options: no call history, no thread effects (DESIGN.md section 6, C20)."""
import gc
import inspect
import io
import json
import os
import subprocess
import sys
import threading

from hypothesis import strategies as st

import sqlparse
from sqlparse import lexer, keywords, tokens as T
from sqlparse.exceptions import SQLParseError

from gen import chars, soup, grammar as G, options as O
from oracles.treecheck import flat_shape as shape
from props import c20_memo
from vlib.core import Leg, Result, exc_failure, VERIF

ID = 'C20'
RULE = ('memo oracle: the results of 47 probes (parse shape, split, tokenize, every filter, both values of options kept in filter instances) are computed in one fresh interpreter each. history leg (model-based): drawn '
        'operation sequences (<=25 steps) of {call on drawn input/options; call with an invalid option (raises); call on over-deep input under a lowered recursion '
        'limit (raises); call on input nested 60/120/300 levels at the normal limit; parsestream consumed for j statements then closed / dropped / kept; tokenizer generator abandoned; lexer reconfiguration (clear, '
        'set_SQL_REGEX on a slice, add_keywords) which switches the model to "reconfigured" until default_initialization(); get_default_instance identity}; after every '
        'step in default mode a drawn probe must equal the memo, and at the end of the history every drawn call made in default mode is repeated and must give the result it gave the first time. schedule leg: the default lexer instance is reset, k in [2,4] threads make the first call, a '
        'sys.settrace line tracer parks every thread before each line of lexer.py, a Hypothesis-drawn schedule grants single steps, Lexer._lock is replaced by a '
        'cooperating lock; every thread must get the memo result and the same instance. stress leg: 16 free-running threads with switch interval 1e-6 run drawn probe '
        'sequences. non-trivial: history with >=1 raising call and (>=1 abandoned generator or a reconfigure/re-initialise pair) before a probe; schedule with a '
        'switch while a thread is inside instance creation/initialisation; distinct by operation sequence / schedule')
ASSUMPTIONS = ['schedules are line-granular inside lexer.py only and bounded in length; bytecode-level races elsewhere are only reachable by the stress leg',
               'in reconfigured mode only totality is checked (results legitimately differ)']

_memo = None


def memo():
    global _memo
    if _memo is None:
        env = dict(os.environ, PYTHONHASHSEED='0', PYTHONDONTWRITEBYTECODE='1')
        from concurrent.futures import ThreadPoolExecutor

        def one(i):
            # a fresh interpreter per probe: the library has seen no other call
            return json.loads(subprocess.check_output([sys.executable, os.path.join(VERIF, 'props', 'c20_memo.py'), str(i)], env=env, text=True))
        with ThreadPoolExecutor(max_workers=16) as ex:
            _memo = list(ex.map(one, range(len(c20_memo.PROBES))))
    return _memo


def probe_ok(i):
    got = json.loads(json.dumps(c20_memo.run_probe(i)))
    return got == memo()[i], got


# ---- history leg ---------------------------------------------------------------------------------------------------

_text = st.one_of(chars.text(True), soup.soup(12), G.rendered_script(2))
NPROBES = len(c20_memo.PROBES)

op = st.one_of(
    st.tuples(st.just('call'), st.sampled_from(['parse', 'split', 'format', 'tokenize']), _text, O.valid_options()),
    st.tuples(st.just('call'), st.sampled_from(['parse', 'split', 'format']), _text, O.valid_options()),
    st.tuples(st.just('invalid'), st.integers(0, 10 ** 6), _text),
    st.tuples(st.just('deep'), st.sampled_from(['paren', 'case', 'ops', 'func']), st.sampled_from(['parse', 'split', 'format'])),
    st.tuples(st.just('moderate'), st.sampled_from(['paren', 'case', 'ops', 'func']), st.sampled_from(['parse', 'split', 'format']), st.sampled_from([60, 120, 300])),
    st.tuples(st.just('stream'), st.sampled_from(["select 1; select 2; select 3; select 4", "select (1; select 2", "a;b;c;d;e"]), st.integers(0, 3),
              st.sampled_from(['close', 'drop', 'keep'])),
    st.tuples(st.just('tokgen'), _text, st.integers(0, 5)),
    st.tuples(st.just('reconf'), st.sampled_from(['clear', 'regex-slice', 'add-keywords', 'regex-only']), st.integers(0, 60)),
    st.tuples(st.just('reinit')),
    st.tuples(st.just('instance')),
    # a second, private Lexer object is built and configured: the default lexer that parse/split/format use is not involved
    st.tuples(st.just('private'), st.sampled_from(['clear', 'regex-slice', 'add-keywords', 'default+clear', 'default+add-keywords']), st.integers(0, 60)),
)
history = st.lists(st.tuples(op, st.integers(0, NPROBES - 1)), min_size=1, max_size=25).map(
    lambda xs: {'ops': [list(o) for o, _ in xs], 'probes': [p for _, p in xs]})

_kept = []


def _deep_text(kind, d):
    return {'paren': 'select ' + '(' * d + '1' + ')' * d, 'case': 'select ' + 'case when a then ' * d + '1' + ' end' * d,
            'ops': 'select ' + 'a+' * d + '1', 'func': 'select ' + 'f(' * d + '1' + ')' * d}[kind]


def _observe(func, text, opts):
    """JSON-able result of a drawn call (SQLParseError is a result)"""
    try:
        if func == 'parse':
            return [[str(x), shape(x), x.get_type()] for x in sqlparse.parse(text)]
        if func == 'split':
            return sqlparse.split(text)
        if func == 'tokenize':
            return [[str(t), v] for t, v in lexer.tokenize(text)]
        return sqlparse.format(text, **dict(opts))
    except SQLParseError:
        return ['SQLParseError']


def check_history(case):
    res = Result(key=case['ops'])
    recorded = []
    lx = lexer.Lexer.get_default_instance()
    lx.default_initialization()
    mode = 'default'
    raised = abandoned = reconf_pair = private = 0
    was_reconf = False
    first_instance = lx
    for step, (o, pi) in enumerate(zip(case['ops'], case['probes'])):
        kind = o[0]
        try:
            if kind == 'call':
                _, func, text, opts = o
                r = _observe(func, text, opts)
                if r == ['SQLParseError']:
                    raised += 1
                if mode == 'default':
                    recorded.append((step, func, text, opts, r))
            elif kind == 'invalid':
                table = O.invalid_table()
                opt, val = table[o[1] % len(table)]
                try:
                    sqlparse.format(o[2], **{opt: val})
                    res.fail('invalid-accepted', opt, '%s=%r accepted' % (opt, val))
                except SQLParseError:
                    raised += 1
            elif kind == 'deep':
                depth_now = len(inspect.stack())
                old = sys.getrecursionlimit()
                sys.setrecursionlimit(depth_now + 120)
                gc_was = gc.isenabled()
                gc.disable()          # Hypothesis' gc callback must not run on the shortened stack
                try:
                    text = _deep_text(o[1], 400)
                    try:
                        if o[2] == 'parse':
                            sqlparse.parse(text)
                        elif o[2] == 'split':
                            sqlparse.split(text)
                        else:
                            sqlparse.format(text, reindent=True)
                    except SQLParseError:
                        raised += 1
                finally:
                    sys.setrecursionlimit(old)
                    if gc_was:
                        gc.enable()
            elif kind == 'moderate':
                # nesting that the interpreter's normal recursion limit accepts (or that is rejected with SQLParseError)
                text = _deep_text(o[1], o[3])
                try:
                    if o[2] == 'parse':
                        sqlparse.parse(text)
                    elif o[2] == 'split':
                        sqlparse.split(text)
                    else:
                        sqlparse.format(text, reindent=True)
                except SQLParseError:
                    raised += 1
            elif kind == 'stream':
                g = sqlparse.parsestream(io.StringIO(o[1]))
                try:
                    for _ in range(o[2]):
                        next(g, None)
                except SQLParseError:
                    raised += 1
                abandoned += 1
                if o[3] == 'close':
                    g.close()
                elif o[3] == 'drop':
                    del g
                    gc.collect()
                else:
                    _kept.append(g)
                    del _kept[:-3]
            elif kind == 'tokgen':
                g = lexer.tokenize(o[1])
                for _ in range(o[2]):
                    next(g, None)
                abandoned += 1
                del g
            elif kind == 'reconf':
                lx = lexer.Lexer.get_default_instance()
                if o[1] == 'clear':
                    lx.clear()
                elif o[1] == 'regex-slice':
                    lx.set_SQL_REGEX(keywords.SQL_REGEX[o[2] % len(keywords.SQL_REGEX):])
                elif o[1] == 'regex-only':
                    lx.clear()
                    lx.set_SQL_REGEX(keywords.SQL_REGEX)
                else:
                    lx.add_keywords({'ZORK': T.Keyword, 'SELECT': T.Name, 'FROM': T.Keyword.DML, 'T': T.Keyword, 'A': T.Name.Builtin, 'B': T.Keyword,
                                     'X': T.Keyword.DML, 'FOO': T.Keyword, 'TBL': T.Keyword.DDL, 'E': T.Keyword, 'Y': T.Name.Builtin})
                    # a custom dictionary appended after the defaults only adds words; make it observable by putting it first
                    lx._keywords.insert(0, lx._keywords.pop())
                mode = 'reconfigured'
                was_reconf = True
            elif kind == 'private':
                inst = lexer.Lexer()
                if o[1].startswith('default+'):
                    inst.default_initialization()
                else:
                    inst.clear()
                if o[1] == 'regex-slice':
                    inst.set_SQL_REGEX(keywords.SQL_REGEX[o[2] % len(keywords.SQL_REGEX):])
                elif o[1].endswith('add-keywords'):
                    inst.set_SQL_REGEX(keywords.SQL_REGEX)
                    inst.add_keywords({'ZORK': T.Keyword, 'SELECT': T.Name, 'FROM': T.Keyword.DML, 'T': T.Keyword, 'A': T.Name.Builtin, 'X': T.Keyword.DML})
                elif o[1].endswith('clear'):
                    inst.clear()
                try:
                    list(inst.get_tokens('select a from t where x = 1'))
                except Exception:
                    pass          # what an oddly configured private lexer does with a text is not the subject
                private += 1
            elif kind == 'reinit':
                lexer.Lexer.get_default_instance().default_initialization()
                if was_reconf:
                    reconf_pair += 1
                    was_reconf = False
                mode = 'default'
            elif kind == 'instance':
                if lexer.Lexer.get_default_instance() is not first_instance:
                    res.fail('instance-changed', '', 'get_default_instance() returned another object at step %d' % step)
        except Exception as e:
            f = exc_failure('raises', e)
            f.sig = kind + ':' + mode + ':' + f.sig
            res.failures.append(f)
        if mode != 'default':
            # while reconfigured the probe is still executed (its words are lexed under the custom configuration, so caches
            # keyed on them are populated) but its result is not compared
            try:
                c20_memo.run_probe(pi)
            except SQLParseError:
                pass
            except Exception as e:
                f = exc_failure('raises', e)
                f.sig = 'probe-while-reconfigured:' + f.sig
                res.failures.append(f)
        if mode == 'default':
            try:
                ok, got = probe_ok(pi)
            except Exception as e:
                f = exc_failure('probe-raises', e)
                f.sig = 'after-' + kind + ':' + f.sig
                res.failures.append(f)
                break
            if not ok:
                res.fail('probe-differs', 'after-' + kind + (':' + o[1] if kind in ('reconf', 'deep', 'call') and isinstance(o[1], str) and len(o[1]) < 20 else ''),
                         'probe %d %r gives %r after step %d %r, fresh interpreter gives %r' % (pi, c20_memo.PROBES[pi][:2], str(got)[:120], step, str(o)[:120], str(memo()[pi])[:120]))
                break
    lexer.Lexer.get_default_instance().default_initialization()
    # every drawn call made in default mode is repeated at the end of the history: same input and options, same result
    for step, func, text, opts, r in recorded:
        try:
            again = _observe(func, text, opts)
        except Exception as e:
            f = exc_failure('repeat-raises', e)
            res.failures.append(f)
            break
        if again != r:
            res.fail('repeat-differs', func, '%s(%r, %r) gave %r at step %d and %r at the end of the history' % (func, text[:80], opts, str(r)[:100], step, str(again)[:100]))
            break
    res.nontrivial = raised >= 1 and (abandoned >= 1 or reconf_pair >= 1)
    res.labels = ['history', 'raised'] * 1 if raised else ['history']
    res.labels += ['abandoned-generator'] * bool(abandoned) + ['reconf+reinit'] * bool(reconf_pair) + ['private-lexer'] * bool(private) + ['op:' + o[0] for o in case['ops']]
    res.sample = {'ops': [str(o)[:80] for o in case['ops'][:8]], 'probes': case['probes'][:8]}
    return res


# ---- controlled schedules for the first use -------------------------------------------------------------------------

LEXFILE = os.path.realpath(lexer.__file__)
SCHED_PROBE = 20          # a tokenize probe


class CoopLock:
    """stands in for Lexer._lock: never blocks the OS thread invisibly, tells the scheduler who waits"""

    def __init__(self, sched):
        self.owner = None
        self.sched = sched

    def __enter__(self):
        me = threading.get_ident()
        while True:
            with self.sched.mu:
                if self.owner is None:
                    self.owner = me
                    self.sched.blocked.discard(me)
                    return self
                self.sched.blocked.add(me)
            self.sched.park(me)

    def __exit__(self, *a):
        with self.sched.mu:
            self.owner = None
            self.sched.blocked.clear()

    acquire = lambda self, *a, **k: self.__enter__() is not None
    release = lambda self: self.__exit__()


class Sched:
    def __init__(self):
        self.mu = threading.Lock()
        self.gates = {}
        self.blocked = set()
        self.done = set()
        self.arrived = threading.Semaphore(0)
        self.where = {}

    def park(self, me):
        import time
        while me not in self.gates:
            time.sleep(0)
        g = self.gates[me]
        self.arrived.release()
        g.acquire()

    def tracer(self, frame, event, arg):
        if os.path.realpath(frame.f_code.co_filename) != LEXFILE:
            return None
        name = frame.f_code.co_name

        def local(frame, event, arg):
            if event == 'line':
                me = threading.get_ident()
                self.where[me] = name
                self.park(me)
            return local
        return local


def run_schedule(schedule, k):
    lexer.Lexer._default_instance = None
    sched = Sched()
    real_lock = lexer.Lexer.__dict__.get('_lock')
    if real_lock is not None:
        lexer.Lexer._lock = CoopLock(sched)
    results = {}
    text = c20_memo.PROBES[SCHED_PROBE][1]

    def body(i):
        me = threading.get_ident()
        sys.settrace(sched.tracer)
        try:
            sched.park(me)
            inst = lexer.Lexer.get_default_instance()
            toks = [[str(t), v] for t, v in inst.get_tokens(text)]
            results[i] = (id(inst), toks)
        except BaseException as e:
            results[i] = ('EXC', repr(e))
        finally:
            sys.settrace(None)
            with sched.mu:
                sched.done.add(me)
            sched.arrived.release()
    threads = [threading.Thread(target=body, args=(i,), daemon=True) for i in range(k)]
    for t in threads:
        t.start()
        sched.gates[t.ident] = threading.Semaphore(0)
    for _ in threads:
        sched.arrived.acquire()
    order = [t.ident for t in threads]
    steps = si = 0
    interesting = 0
    last = None
    try:
        while len(sched.done) < k:
            runnable = [x for x in order if x not in sched.done]
            pick = schedule[si % len(schedule)] if schedule else 0
            si += 1
            cand = [x for x in runnable if x not in sched.blocked] or runnable
            tid = cand[pick % len(cand)]
            if last is not None and tid != last and any(sched.where.get(x) in ('get_default_instance', 'default_initialization', 'clear', 'set_SQL_REGEX', 'add_keywords')
                                                        for x in runnable if x != tid):
                interesting += 1
            last = tid
            sched.gates[tid].release()
            if not sched.arrived.acquire(timeout=20):
                raise RuntimeError('scheduler: thread did not come back within 20 s')
            steps += 1
            if steps > 100000:
                raise RuntimeError('scheduler: livelock')
    finally:
        if real_lock is not None:
            lexer.Lexer._lock = real_lock
    for t in threads:
        t.join(5)
    return results, steps, interesting


def check_schedule(case):
    res = Result(key=[case['schedule'], case['k']])
    try:
        results, steps, interesting = run_schedule(case['schedule'], case['k'])
    finally:
        sys.settrace(None)
    want = memo()[SCHED_PROBE]
    insts = {r[0] for r in results.values()}
    for i, r in sorted(results.items()):
        if r[0] == 'EXC':
            res.fail('first-use', 'exception', 'thread %d raised %s' % (i, r[1][:200]))
        elif r[1] != want:
            res.fail('first-use', 'wrong-tokens', 'thread %d tokenized with an incompletely initialised lexer: %r ...' % (i, r[1][:3]))
    if 'EXC' not in insts and len(insts) != 1:
        res.fail('first-use', 'two-instances', 'threads got %d different default instances' % len(insts))
    lexer.Lexer._default_instance = None
    lexer.Lexer.get_default_instance()
    res.nontrivial = interesting >= 1
    res.labels = ['schedule', 'k=%d' % case['k']] + ['switch-during-init'] * bool(interesting)
    res.sample = {'schedule': case['schedule'][:30], 'k': case['k'], 'steps': steps}
    return res


schedules = st.tuples(st.lists(st.integers(0, 3), min_size=1, max_size=80), st.integers(2, 4)).map(lambda t: {'schedule': t[0], 'k': t[1]})


# ---- free-running stress ----------------------------------------------------------------------------------------------

def check_stress(case):
    res = Result(key=case['seqs'])
    old = sys.getswitchinterval()
    sys.setswitchinterval(1e-6)
    errors = []
    lexer.Lexer._default_instance = None

    def body(seq):
        try:
            for pi in seq:
                ok, got = probe_ok(pi)
                if not ok:
                    errors.append(('differs', pi, str(got)[:120]))
        except Exception as e:
            errors.append(('exception', -1, repr(e)[:200]))
    m = memo()
    threads = [threading.Thread(target=body, args=(seq,)) for seq in case['seqs']]
    try:
        for t in threads:
            t.start()
        for t in threads:
            t.join(120)
    finally:
        sys.setswitchinterval(old)
    for kind, pi, detail in errors[:3]:
        res.fail('concurrent', kind + (':probe%d' % pi if pi >= 0 else ''), 'under 16 free-running threads: %s' % detail)
    res.nontrivial = len(case['seqs']) >= 8
    res.labels = ['stress']
    res.sample = {'threads': len(case['seqs']), 'first': case['seqs'][0][:10]}
    return res


stress = st.lists(st.lists(st.integers(0, NPROBES - 1), min_size=3, max_size=12), min_size=16, max_size=16).map(lambda s: {'seqs': s})


LEGS = [Leg('history', check=check_history, strategy=lambda tier: history, examples={'quick': 1200, 'thorough': 30000}),
        Leg('schedule', check=check_schedule, strategy=lambda tier: schedules, examples={'quick': 600, 'thorough': 10000}),
        Leg('stress', check=check_stress, strategy=lambda tier: stress, examples={'quick': 60, 'thorough': 1500}, max_shards=4)]
