"""Computes the memo table of C20 in a fresh interpreter: result of every probe (function, input, options) on a
library that has seen no other call.  Prints JSON."""
import json
import os
import sys

sys.dont_write_bytecode = True
HERE = os.path.dirname(os.path.dirname(os.path.abspath(__file__)))
sys.path.insert(0, HERE)
sys.path.insert(0, os.environ.get('VERIF_REPO', '/repo'))

PROBES = [
    ('parse', "select a, 'x' from t where b = 1 order by c", {}),
    ('parse', "insert into t (a, b) values (1, 'two'), (3, f(4)); update t set a = a + 1 where b in (select c from d)", {}),
    ('parse', "create or replace function f() returns int as begin if a then return 1; end if; end; select 2", {}),
    ('parse', "with x as (select 1) select case when a then 'b' else 'c' end from x join y on x.i = y.i", {}),
    ('split', "select 1; select 2; -- c\nselect 3", {}),
    ('split', "begin; update t set a = 1; commit; GO select 1", {}),
    ('split', "create procedure p() begin select 1; select 2; end; select 3;", {}),
    ('split', "select ';' ; select $$ ; $$ ; /* ; */ select 4", {}),
    ('format', "select a,b from t where c=1 and d in (1,2,3) order by e", {'reindent': True}),
    ('format', "select a,b from t where c=1 and d in (1,2,3) order by e", {'reindent': True, 'keyword_case': 'upper', 'indent_width': 4}),
    ('format', "select a , b from t -- c\nwhere x=1", {'strip_comments': True, 'strip_whitespace': True}),
    ('format', "select a+b*c, d||e from t where f<>g", {'use_space_around_operators': True}),
    ('format', "select a from t join u on t.i=u.i where a between 1 and 2 group by a having a>1", {'reindent_aligned': True}),
    ('format', "SELECT Foo, 'Bar' FROM \"Tbl\" WHERE x = 'a long string literal'", {'identifier_case': 'lower', 'truncate_strings': 5}),
    ('format', "select 1; select 2", {'output_format': 'python'}),
    ('format', "select 1; select 2", {'output_format': 'php', 'reindent': True}),
    ('format', "select a, b, c, d from t", {'reindent': True, 'comma_first': True, 'wrap_after': 10}),
    ('format', "insert into t values (1, 2), (3, 4)", {'reindent': True, 'compact': True}),
    ('format', "select case when a then 1 when b then 2 else 3 end from t", {'reindent': True, 'indent_tabs': True}),
    ('format', "select * from a where b = 1; select * from c", {'reindent': True, 'indent_after_first': True, 'indent_columns': True}),
    ('tokenize', "select 1e5, 0x1F, .5, a.b, `q`, [x], @v, :p, $1, 'it''s' /* c */ -- d", {}),
    ('tokenize', "END IF; END LOOP; ORDER BY; NOT NULL; UNION ALL; LEFT OUTER JOIN", {}),
    ('parse', "select f(x) over (partition by y order by z desc nulls last) as w, a::int[1], interval '1' day from t", {}),
    ('parse', "", {}),
    # every filter on its own and in the pairs that share token objects or in-place edits
    ('format', "select a/* c */from b /* d */ where 1/* e */+ 2 -- f\nand x", {'strip_comments': True}),
    ('format', "select a /* c */ from b where c=1 -- f\n", {'strip_comments': True, 'use_space_around_operators': True}),
    ('format', "select  a ,  b   from ( select 1 )  x", {'strip_whitespace': True}),
    ('format', "select a+b, c<d, e||f from t where g>=h", {'use_space_around_operators': True, 'keyword_case': 'capitalize'}),
    ('format', "select a /* c */ , b from t -- e\nwhere x = 1 /* f */", {'strip_comments': True, 'reindent': True}),
    ('format', "select a,b as c from t where d=1 or e=2", {'reindent_aligned': True, 'use_space_around_operators': True}),
    ('format', "select 'abcdefghij', \"Q\" from t", {'truncate_strings': 3, 'truncate_char': '~'}),
    ('format', "Select A, b From T Where c In (1, 2)", {'keyword_case': 'lower', 'identifier_case': 'upper'}),
    ('format', "select a from t;\n\n\nselect b from u;  ", {'strip_whitespace': True, 'output_format': 'python'}),
    ('format', "select a from t union all select b from u order by 1 limit 2", {'reindent': True, 'wrap_after': 20, 'indent_width': 3}),
    ('format', "create table t (a int, b varchar(10) not null, primary key (a))", {'reindent': True}),
    ('format', "select a from t where x in (select y from u where z = 1)", {'reindent': True, 'strip_comments': True, 'use_space_around_operators': True}),
    ('format', "select /*+ hint */ a, -- c\n b from t", {'strip_comments': True, 'strip_whitespace': True}),
    ('format', "update t set a=1,b=2 where c=3", {'reindent': True, 'comma_first': True, 'use_space_around_operators': True}),
    ('split', "select 1;  select 2 ;;  select 3; ", {'strip_semicolon': True}),
    ('parse', "select a b, c as d, e.f g, 'x' y, f(1) z, (select 1) w from t1 u, t2 as v", {}),
    # the same filters with the other value of an option that is kept in the filter instance
    ('format', "select a from t join u on t.i=u.i where a between 1 and 2 group by a having a>1", {'reindent_aligned': True, 'indent_tabs': True}),
    ('format', "select a,b from t where c=1 and d in (1,2,3) order by e", {'reindent': True, 'indent_tabs': True}),
    ('format', "select a,b from t where c=1 and d in (select x from y where z = 1)", {'reindent': True, 'indent_width': 7, 'comma_first': True}),
    ('format', "select 'abcdefghij', 'klmnopqrst' from t", {'truncate_strings': 5}),
    ('format', "Select A, b From T Where c In (1, 2)", {'keyword_case': 'upper', 'identifier_case': 'lower'}),
    ('format', "select a from t; select b from u", {'output_format': 'php'}),
    ('format', "select a from t; select b from u", {'output_format': 'python', 'reindent': True}),
]


def run_probe(i):
    import sqlparse
    from sqlparse import lexer
    from oracles.treecheck import flat_shape
    func, text, opts = PROBES[i]
    if func == 'parse':
        return [[str(s), flat_shape(s), s.get_type()] for s in sqlparse.parse(text)]
    if func == 'split':
        return sqlparse.split(text, **dict(opts))
    if func == 'tokenize':
        return [[str(t), v] for t, v in lexer.tokenize(text)]
    return sqlparse.format(text, **dict(opts))


if __name__ == '__main__':
    # one probe per interpreter: the memo of a probe must not depend on the probes computed before it
    if len(sys.argv) > 1:
        print(json.dumps(run_probe(int(sys.argv[1]))))
    else:
        print(json.dumps([run_probe(i) for i in range(len(PROBES))]))
