select /*+ index(t ix) */ a, b from t where x = 1 --+ hint
;
create table "T" (id int primary key, name varchar(20) not null, amt double precision default 0.0, ts timestamp);
create index ix on t (a desc, b asc nulls first);
select a->'k'->>'v', b #> '{x}', c @> d, e ?| f from j where g ~* '^x' and h !~ 'y' and i <= -1.5e-3 or k >= 0x1F;
begin; update acct set bal = bal - 100 where id = 1; commit;
declare c cursor for select * from t; fetch next from c;
select * from (select x, row_number() over (order by y) rn from t) s where rn <= 10 union all select 1, 2 except select 3, 4;
if exists (select 1 from t) begin select 1 end
for i in 1..3 loop insert into t values (i); end loop;
case x when 1 then 'a' else 'b' end case;
grant select on t to role r; \d t
select $tag$ body with ; and ' and $$ $tag$, $$another;$$ from dual;
/*!40101 SET @OLD_CHARACTER_SET_CLIENT=@@CHARACTER_SET_CLIENT */;
/*!50003 CREATE*/ /*!50017 DEFINER=`root`@`localhost`*/ /*!50003 TRIGGER t1 BEFORE INSERT ON t FOR EACH ROW SET NEW.a = 1 */;
select 1; /*! select 2 */ select 3;
