-- seed corpus: procedures, triggers, CTEs, window functions, vendor syntax (hand written)
CREATE OR REPLACE FUNCTION add_tax(price numeric, rate numeric DEFAULT 0.2) RETURNS numeric AS $body$
BEGIN
  IF price IS NULL THEN
    RETURN NULL;
  END IF;
  RETURN price * (1 + rate);  -- gross; net
END;
$body$ LANGUAGE plpgsql;

CREATE TRIGGER trg_audit AFTER UPDATE ON accounts FOR EACH ROW
BEGIN
  INSERT INTO audit(acc_id, old_bal, new_bal, at) VALUES (OLD.id, OLD.balance, NEW.balance, CURRENT_TIMESTAMP);
  UPDATE stats SET n = n + 1 WHERE k = 'upd';
END;

WITH RECURSIVE t(n) AS (SELECT 1 UNION ALL SELECT n + 1 FROM t WHERE n < 10),
     u AS (SELECT n, n * n AS sq FROM t)
SELECT u.n, u.sq, sum(u.sq) OVER (PARTITION BY u.n % 2 ORDER BY u.n DESC NULLS LAST) AS run
FROM u LEFT OUTER JOIN "Weird Table" w ON w."a;b" = u.n AND w.`c'd` <> 'x''y;z'
WHERE u.sq BETWEEN 4 AND 81 AND (u.n IN (1, 2, 3) OR EXISTS (SELECT 1 FROM v WHERE v.id = u.n))
GROUP BY u.n, u.sq HAVING count(*) > 0 ORDER BY 1, run DESC LIMIT 5 OFFSET 2;
GO
SELECT TOP 3 [col one], @v, #tmp.x, ##g.y FROM [dbo].[t] WHERE a = :p AND b = %s AND c = ? AND d = $1 /* block ; comment */;
INSERT INTO t2 (a, b, c) VALUES (1, 'two', DATE '2020-01-01'), (2, E'esc\'aped', INTERVAL '1' DAY);
UPDATE t2 SET a = CASE WHEN b LIKE 'x%' THEN a + 1 WHEN b IS NULL THEN 0 ELSE a - 1 END, c = c::date WHERE id = ANY(ARRAY[1,2,3]) RETURNING id;
DELETE FROM t2 USING t3 WHERE t2.id = t3.id AND t3.ts AT TIME ZONE 'UTC' > now();
