#!/venv/bin/python
"""Single entry point:  run.py <Cxx> [--tier quick|thorough] [--replay FILE] [--shards N] [--leg NAME] [--scale F]

exit 0: property held on everything explored (KNOWN-FINDING lines may be printed)
exit 1: violation, one line `VIOLATION property=<id> replay=<path>` per failure bucket
exit 2: harness error (never a statement about the property)
"""
import argparse
import os
import sys

HERE = os.path.dirname(os.path.abspath(__file__))


def _reexec_if_needed():
    want = {'PYTHONHASHSEED': '0', 'PYTHONDONTWRITEBYTECODE': '1'}
    if any(os.environ.get(k) != v for k, v in want.items()):
        env = dict(os.environ)
        env.update(want)
        os.execve(sys.executable, [sys.executable] + sys.argv, env)


def main():
    _reexec_if_needed()
    sys.dont_write_bytecode = True
    ap = argparse.ArgumentParser()
    ap.add_argument('prop')
    ap.add_argument('--tier', default=os.environ.get('VERIF_TIER') or 'quick', choices=['quick', 'thorough'])
    ap.add_argument('--replay')
    ap.add_argument('--shards', type=int, default=None)
    ap.add_argument('--leg', default=None)
    ap.add_argument('--scale', type=float, default=1.0)
    args = ap.parse_args()

    repo = os.path.realpath(os.environ.get('VERIF_REPO', '/repo'))
    os.environ['VERIF_REPO'] = repo
    sys.path.insert(0, HERE)
    sys.path.insert(0, repo)
    os.chdir(HERE)
    try:
        import sqlparse
    except Exception as e:       # the tree under test does not import: nothing can be decided
        sys.stderr.write('HARNESS ERROR cannot import sqlparse from %s: %r\n' % (repo, e))
        return 2
    if not os.path.realpath(sqlparse.__file__).startswith(repo + os.sep):
        sys.stderr.write('HARNESS ERROR sqlparse imported from %s, not from %s\n' % (sqlparse.__file__, repo))
        return 2
    try:
        import hypothesis  # noqa: F401
    except ImportError:
        sys.stderr.write('HARNESS ERROR hypothesis is not installed in %s (run MANIFEST.setup_cmd)\n' % sys.executable)
        return 2

    from vlib import core
    try:
        seed = int(os.environ.get('VERIF_SEED', '1') or '1')
    except ValueError:
        seed = core.h64(os.environ['VERIF_SEED']) & 0x7FFFFFFF
    prop_id = args.prop.upper()

    try:
        if args.replay:
            prop = core.load_prop(prop_id)
            rec, res = core.replay_file(prop, args.replay)
            from vlib import findings as F
            known = [e for e in core.load_findings(prop.ID) if e.get('status') == 'known']
            bad = 0
            for f in res.failures:
                fid = [e['id'] for e in known if F.CLASSIFIERS[e['classifier']](rec['case'], f)]
                if fid:
                    print('KNOWN-FINDING: property=%s %s: %s' % (prop.ID, fid[0], f.detail))
                else:
                    bad += 1
                    sys.stderr.write('  %s/%s %s\n' % (f.clause, f.sig, f.detail))
            if bad:
                print('VIOLATION property=%s replay=%s' % (prop.ID, args.replay))
                return 1
            print('replay %s: property held' % args.replay)
            return 0
        return core.run_property(prop_id, tier=args.tier, seed=seed, shards=args.shards, only_leg=args.leg,
                                 scale=args.scale)
    except core.HarnessError as e:
        sys.stderr.write('HARNESS ERROR %s\n' % e)
        return 2
    except Exception:
        import traceback
        sys.stderr.write('HARNESS ERROR\n' + traceback.format_exc())
        return 2


if __name__ == '__main__':
    sys.exit(main())
