#!/bin/sh
# MANIFEST.setup_cmd: offline; makes sure the interpreter used by the checks has hypothesis and sees /repo's sqlparse.
set -e
PY=/venv/bin/python
if ! $PY -c "import hypothesis" 2>/dev/null; then
    /venv/bin/pip install --no-index --find-links /opt/veriftools/wheels hypothesis
fi
$PY -c "import hypothesis, sys; sys.path.insert(0, '/repo'); import sqlparse; print('setup ok: hypothesis', hypothesis.__version__, 'sqlparse', sqlparse.__version__, sqlparse.__file__)"
