#!/venv/bin/python
"""Writes MANIFEST.json from the property modules present under props/ (keeps it valid at all times)."""
import json
import os
import sys

HERE = os.path.dirname(os.path.dirname(os.path.abspath(__file__)))
sys.path.insert(0, HERE)
sys.path.insert(0, '/repo')

META = {
 'C01': ('differential vs. reference scanner + lossless round trip over generated text (Hypothesis)', '6 C01',
         'Generated-input search: every generated str is tokenized through both public entry points and compared item by item with an independent first-match-wins scanner; totality, non-empty items, exact concatenation and Error-token placement follow. Finds violations, cannot prove absence.',
         'trusts keywords.SQL_REGEX and the keyword dictionaries as data (their content is checked by C14/C16); bytes input is C19'),
 'C02': ('round trip + independent tree walk over generated text (Hypothesis)', '6 C02',
         'Generated-input search with a round-trip oracle: join(str(stmt)) must reproduce the input up to a whitespace-only tail for parse and parsestream, and str(node) must equal the join of leaf values collected by an own iterative walk, for every node.',
         'whitespace = str.isspace; sizes bounded so that the recursion guard is never reached (that is C15)'),
 'C03': ('differential vs. reference scan + structural invariants + navigation reference model (Hypothesis)', '6 C03',
         'Generated-input search: leaves vs. reference scan (only Wildcard/Operator may be re-typed), parent pointers, non-empty groups, single occurrence, cached value, and token_index/token_next/token_prev/get_token_at_offset/within/has_ancestor/is_child_of against containment computed top-down by the harness.',
         'navigation semantics taken from the docstrings; offsets sampled at both ends of every leaf when the statement is longer than 400 characters'),
 'C04': ('differential split vs. parse + partition scan + re-split idempotence (Hypothesis)', '6 C04',
         'Generated-input search: split() equals the stripped statements of parse(), pieces are located left to right with only whitespace between, every piece re-splits to itself.',
         'whitespace = str.isspace/strip'),
 'C05': ('generator ground truth for statement extents + metamorphic region-body replacement (Hypothesis)', '6 C05',
         'Generated scripts of k grammar statements with drawn separators; the generator knows which lexeme belongs to which statement, opaque regions get adversarial bodies lacking their terminator; split/parse must return exactly the k statements with every lexeme inside its own piece.',
         'verification grammar of DESIGN.md section 3; tail domain excludes comment-only tails after a newline (documented splitting rule); known finding F5 excluded from the main search by construction and attributed in the hazard leg'),
 'C06': ('lexeme-level match of format() output against what the generator wrote + re-lex differential (Hypothesis)', '6 C06',
         'Generated scripts x every subset of the 11 layout options: the output must contain exactly the written words in order (literals and quoted names byte-identical, comments modulo the serializer normalisation), nothing glued, same re-lexed token sequence, same statement count.',
         'comments compared modulo line-end/trailing-blank normalisation (granted by the property mechanism); known finding F6 excluded from the main search by construction and attributed in the hazard leg'),
 'C07': ('exception bucketing over generated (text, options) + exhaustive invalid-option table (Hypothesis + enumeration)', '6 C07',
         'Generated-input search for escaping exceptions: all entry points and every read-only accessor on every node, only SQLParseError may escape; the invalid-option table is enumerated completely and must be rejected with SQLParseError before the input stream is read.',
         'right_margin excluded (undocumented, NotImplementedError by design); accessors called with default arguments'),
 'C08': ('expected token sequence derived from the lexing of the input vs. re-lexed output + fixed-point check (Hypothesis)', '6 C08',
         'Generated scripts x one targeted filter (alone or combined with layout/other options): the non-whitespace token sequence expected from the input lexing (comments minus hints removed, Keyword / Name tokens re-cased, long String.Single cut to N + marker) must equal the re-lexed output, so nothing else changes and nothing is fused or split; alone, a second application must change nothing.  `written-literals` leg: statements built from literals the generator wrote (plain and with a type prefix N/E/X/B/U&/_charset, lengths around N), the output must be the exact text with each written literal cut to N + marker - an expectation that does not move with the library lexer.',
         'token types of the input come from the lexer (C01/C14) except in the written-literals leg; truncate_char without quotes/backslashes; known findings F6, F7, F19 excluded/attributed'),
 'C10': ('normal-form predicates over the whitespace gaps located by lexmatch + fixed-point checks (Hypothesis)', '6 C10',
         'Generated scripts x {strip_whitespace; use_space_around_operators; reindent x sub-options}: gaps between the written words are located in the output; NF1/NF2/NF3 predicates are evaluated on them and on the output lexing; NF1 and NF2 are applied twice.',
         'whitespace inside a multi-word keyword token is not a gap; a line comment owns its line end; known findings F6, F8b, F9b excluded from the main legs by construction and attributed in hazard legs'),
 'C11': ('metamorphic: two renderings of one lexeme list (canonical vs. re-spaced/re-cased) must parse to the same shape (Hypothesis)', '6 C11',
         'Generated lexeme lists (grammar scripts and light procedural scripts) rendered twice with the same tight/spaced positions: statement counts, split pieces modulo whitespace/case, get_type() and tree shapes (class names, leaves by type and value modulo keyword case/inner whitespace) must coincide.',
         'no comments are inserted (a line comment makes the following line break significant); only non-empty whitespace is replaced by other non-empty whitespace'),
 'C12': ('constructed references with known name/qualifier/alias vs. accessor results, two renderings per reference (Hypothesis)', '6 C12',
         'References are constructed from parts (name x quoting x qualifier x alias x AS x whitespace x context x neighbours); the tree must contain an Identifier spanning exactly the written reference whose five accessors return the written parts, in both renderings.',
         'dot written without blanks (the property\'s own form); INSERT targets carry no alias'),
 'C13': ('generator role marks vs. node spans and accessor outputs (Hypothesis)', '6 C13',
         'The grammar marks every WHERE clause, comma list, call, CASE, comparison and typed literal it writes; character spans of the parsed nodes computed by an own walk must coincide with the marks and the accessors must reproduce the written items/arguments/parts/operands.',
         'a Where without follower extends to the end of the statement incl. its semicolon; bare keyword literals are written in forms the grouping engine documents (NULL AS x, parenthesised in arithmetic); known finding F24 attributed by a rule over the written lexemes'),
 'C14': ('context-independence oracle for opaque lexemes (Hypothesis) + exhaustive dictionary x case x context enumeration', '6 C14',
         'Regions: tokenize(L+lexeme+R) must equal tokenize(L)+[(type, lexeme)]+tokenize(R) for bodies over the full character set constrained by construction; keywords: every dictionary word x 3 casings x 49 contexts enumerated completely against a table oracle written from the documentation, plus drawn case masks and non-dictionary words.',
         'dictionary order and dedicated-rule table written in the oracle; right contexts ( and . excluded for words by design'),
 'C15': ('generated nesting constructs x depth x recursion limit executed in plain-Python child processes, outcome classification (Hypothesis)', '6 C15',
         'Cases drawn by Hypothesis, executed in a child interpreter whose recursion limit is lowered after import: outcome must be ok (round-trip and tree invariants by an iterative walk) or SQLParseError, a later ordinary call must work, the child must survive.',
         'limits 100/150/300 in quick, 500/1000 added in thorough with depth capped at 1200'),
 'C16': ('enumerated pump strings per lexer rule (per loop: reaching prefix + pumps over minterm representatives of the rule; per rule: alphabet strings) and Hypothesis-drawn pumps, each tokenized under a CPU-time budget', '6 C16',
         'Search for super-polynomial tokenizing time: per rule of the current table, pumps over the rule alphabet (extracted with re._parser) at lengths ~60 and ~2000, plus drawn pumps; CPU time per candidate must stay under 2 s (observed worst ~0.05 s). Cannot prove the universal clause; decides the stated concrete shapes.',
         'CPU time via ITIMER_VIRTUAL (load-independent); no static ambiguity analysis (outside the technique family)'),
 'C17': ('generator ground truth for statement extents over a procedural grammar (Hypothesis)', '6 C17',
         'Scripts p plain + one CREATE..BEGIN..END body from the procedural grammar (all listed constructs, nesting <=3) + q plain statements: split/parse must return exactly these statements, every lexeme in the piece of its own statement.',
         'multi-word keywords with single inner blanks (respelling is C11)'),
 'C18': ('generator role tag / dictionary data vs. get_type() over prefixed, re-cased statements (Hypothesis)', '6 C18',
         'Statements of every kind (incl. WITH + each DML, other DML/DDL leaders, UNKNOWN leaders) with drawn comment/whitespace prefixes, casing and multi-word spelling; get_type() of every statement must equal the expected string.',
         'expected type of single-word leaders from the dictionaries as data; known finding F12a (keyword glued to parenthesis) checked in its own leg and attributed'),
 'C19': ('differential across input forms and across API vs. in-process CLI (Hypothesis)', '6 C19',
         'Same text as str / bytes+encoding / UTF-8 bytes / Latin-1 bytes / stream through parse, parsestream, split, format must give the results of the str form; sqlparse.cli.main(argv) with drawn flags, encodings and channels must output format(text-mode decoding, **options).',
         'bool-typed CLI flags only with truthy value; identifier_case not combined with legacy code pages (re-casing may leave the code page)'),
 'C20': ('memo-table oracle (fresh-interpreter results of 40 probes) and repeat-at-end oracle under model-based operation histories, harness-owned thread schedules and free-running stress (Hypothesis)', '6 C20',
         'Probe results computed in a fresh interpreter must be reproduced after every step of drawn operation histories (raising calls, abandoned generators, reconfigure/re-initialise), by every thread under drawn line-level schedules of the first use of the default lexer, and under 16 free-running threads.',
         'schedules are line-granular inside lexer.py only; no liveness claim; reconfigured mode checks totality only'),
 'C09': ('differential vs. textbook hierarchical stack matcher over generated token arrangements (Hypothesis)', '6 C09',
         'Balanced forests over the bracket/block vocabulary perturbed by edits, plus all other sources: the set of (class, first leaf, last leaf) of the six node classes must equal the reference matcher prediction, and each node must start/end with its delimiters at child level (allowing a delimiter shared with a nested node of another of the six kinds).',
         'multi-word closers written with one blank (respelling is C11)'),
}


def main():
    checks = []
    have = sorted(f[:-3].upper() for f in os.listdir(os.path.join(HERE, 'props')) if f.startswith('c') and f[1:3].isdigit())
    props = [json.loads(l) for l in open(os.path.join(HERE, 'properties.jsonl'))]
    not_applicable = []
    for p in props:
        pid = p['id']
        if pid in have and pid in META:
            tech, ref, text, note = META[pid]
            checks.append({
                'property_id': pid,
                'quick_cmd': '/venv/bin/python run.py %s --tier quick' % pid,
                'thorough_cmd': '/venv/bin/python run.py %s --tier thorough' % pid,
                'evidence_file': 'evidence/%s.json' % pid,
                'replay_cmd_template': '/venv/bin/python run.py %s --replay {path}' % pid,
                'engine': 'pbt',
                'level_claimed': {'category': 'exploration', 'text': text, 'design_ref': 'DESIGN.md section ' + ref},
                'level_note': note,
                'technique': tech,
            })
        else:
            not_applicable.append({'property_id': pid, 'reason': 'check not built yet in this revision (planned: DESIGN.md section 6); no claim is made'})
    manifest = {
        'version': 1,
        'setup_cmd': './setup.sh',
        'hooks': {
            'guard': 'SQLPARSE_VERIF',
            'enable': 'no source hooks exist: every observation point is public API (C20 replaces Lexer._lock and uses sys.settrace from outside)',
            'baseline_off_cmd': 'cd /repo && /venv/bin/python -m pytest -ra -q -p no:cacheprovider --timeout=900 --continue-on-collection-errors',
            'source_commits': [],
            'add_only': True,
        },
        'engines': [{'name': 'pbt', 'path': 'run.py', 'serves_properties': [c['property_id'] for c in checks],
                     'kind_free_text': 'Hypothesis 6.168 strategies / state machines + exhaustive enumeration of small finite domains; sharded over 16 processes; collect-bucket-attribute-shrink-replay (vlib/core.py)'}],
        'checks': checks,
        'not_applicable': not_applicable,
        'notes': 'Technique family: property-based testing and fuzzing only. Genuine defects repaired in /repo are unguarded "fix:" commits listed as fixed in known_findings.json; defects recorded but not repaired are listed there as known and reported as KNOWN-FINDING lines.',
    }
    with open(os.path.join(HERE, 'MANIFEST.json'), 'w') as f:
        json.dump(manifest, f, indent=1)
    print('MANIFEST.json: %d checks, %d not_applicable' % (len(checks), len(not_applicable)))


if __name__ == '__main__':
    main()
