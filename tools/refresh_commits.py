#!/venv/bin/python
"""Re-resolves the commit hash of every fixed finding from its commit subject (hashes change when fix commits in /repo
are squashed) and rewrites the 'record' line  fixed: property=<id> <commit> <what failed>."""
import json
import os
import re
import subprocess

HERE = os.path.dirname(os.path.dirname(os.path.abspath(__file__)))
p = os.path.join(HERE, 'known_findings.json')
d = json.load(open(p))
log = subprocess.check_output(['git', '-C', '/repo', 'log', '--format=%h\t%s']).decode().splitlines()
subjects = {l.split('\t', 1)[1]: l.split('\t', 1)[0] for l in log}
hashes = {l.split('\t', 1)[0]: l.split('\t', 1)[1] for l in log}
for e in d['findings']:
    if e.get('status') != 'fixed':
        continue
    if 'subject' not in e:
        # first run: derive from the stale hash if it still exists, else ask
        if e.get('commit') in hashes:
            e['subject'] = hashes[e['commit']]
        else:
            raise SystemExit('finding %s: commit %s unknown and no subject recorded' % (e['id'], e.get('commit')))
    if e['subject'] not in subjects:
        raise SystemExit('finding %s: no commit with subject %r' % (e['id'], e['subject']))
    e['commit'] = subjects[e['subject']]
    failed = e.get('failed')
    if failed is None:
        m = re.match(r'fixed: property=\S+ \S+ (.*)', e.get('what', ''), re.S)
        failed = m.group(1) if m else e.get('what', '')
        e['failed'] = failed
    e['what'] = 'fixed: property=%s %s %s' % (e['properties'][0], e['commit'], failed)
json.dump(d, open(p, 'w'), indent=1)
print('refreshed', sum(1 for e in d['findings'] if e.get('status') == 'fixed'), 'fixed findings')
