#!/bin/sh
# usage: tools/runall.sh [scale] [props...]   -- runs the quick checks one after another, prints exit code and time
SCALE=${1:-1}; shift
PROPS=${@:-$(ls props | grep '^c[0-9][0-9].py$' | sed 's/.py//' | tr a-z A-Z)}
for p in $PROPS; do
  s=$(date +%s)
  /venv/bin/python run.py $p --scale $SCALE > /tmp/runall.$p.out 2> /tmp/runall.$p.err; rc=$?
  e=$(date +%s)
  echo "$p rc=$rc $((e-s))s $(grep -c KNOWN-FINDING /tmp/runall.$p.out) known $(grep -c VIOLATION /tmp/runall.$p.out) violations"
  [ $rc -ne 0 ] && head -c 1500 /tmp/runall.$p.err
done
true
