#!/venv/bin/python
"""Seeded changes (independent sub-agents' property-breaking patches kept under seeded/<id>/).

  tools/seeded.py import <worktree> <id>     copy patch.diff/demo.py/meta.json from <worktree>/_seeded into seeded/<id>/
  tools/seeded.py verify <id>                confirm: patch applies, repository tests pass, demo exits 0 unchanged / !=0 changed
  tools/seeded.py demos                      run every demo against /repo itself: all must exit 0
  tools/seeded.py check <id> [Cxx ...] [--scale F] [--tier T]   run checks against a scratch copy with the patch applied

Scratch copies live under /tmp and are removed afterwards.  /repo itself is never modified."""
import json
import os
import shutil
import subprocess
import sys
import tempfile

HERE = os.path.dirname(os.path.dirname(os.path.abspath(__file__)))
SEEDED = os.path.join(HERE, 'seeded')
PY = '/venv/bin/python'


def scratch(patch=None):
    tmp = tempfile.mkdtemp(prefix='sqlparse-seeded-')
    subprocess.check_call(['git', '-C', '/repo', 'worktree', 'add', '-q', '--detach', os.path.join(tmp, 'r'), 'HEAD'])
    r = os.path.join(tmp, 'r')
    if patch:
        subprocess.check_call(['git', '-C', r, 'apply', patch])
    return tmp, r


def drop(tmp):
    subprocess.call(['git', '-C', '/repo', 'worktree', 'remove', '--force', os.path.join(tmp, 'r')])
    shutil.rmtree(tmp, ignore_errors=True)


def meta_of(sid):
    p = os.path.join(SEEDED, sid, 'meta.json')
    return json.load(open(p)) if os.path.exists(p) else {}


def save_meta(sid, m):
    json.dump(m, open(os.path.join(SEEDED, sid, 'meta.json'), 'w'), indent=1)


def cmd_import(wt, sid):
    src = os.path.join(wt, '_seeded')
    dst = os.path.join(SEEDED, sid)
    os.makedirs(dst, exist_ok=True)
    for fn in os.listdir(src):
        if os.path.isfile(os.path.join(src, fn)) and not fn.endswith('.pyc'):
            shutil.copy(os.path.join(src, fn), dst)
    print('imported', sorted(os.listdir(dst)))


def cmd_verify(sid):
    d = os.path.join(SEEDED, sid)
    patch = os.path.join(d, 'patch.diff')
    demo = os.path.join(d, 'demo.py')
    m = meta_of(sid)
    tmp, r = scratch(patch)
    try:
        t = subprocess.run([PY, '-m', 'pytest', '-q', '-p', 'no:cacheprovider', 'tests'], cwd=r,
                           env=dict(os.environ, PYTHONPATH=r, PYTHONDONTWRITEBYTECODE='1'), capture_output=True, text=True)
        tests = t.stdout.strip().splitlines()[-1] if t.stdout.strip() else 'no output'
        a = subprocess.run([PY, demo], env=dict(os.environ, PYTHONPATH='/repo', PYTHONDONTWRITEBYTECODE='1'), capture_output=True, text=True, cwd=tmp)
        b = subprocess.run([PY, demo], env=dict(os.environ, PYTHONPATH=r, PYTHONDONTWRITEBYTECODE='1'), capture_output=True, text=True, cwd=tmp)
    finally:
        drop(tmp)
    ok = t.returncode == 0 and a.returncode == 0 and b.returncode != 0
    m['verified'] = {'tests_with_change': tests, 'tests_pass': t.returncode == 0, 'demo_unchanged_rc': a.returncode, 'demo_changed_rc': b.returncode,
                     'demo_changed_output': (b.stdout + b.stderr)[-400:], 'confirmed': ok}
    save_meta(sid, m)
    print(sid, 'confirmed' if ok else 'NOT CONFIRMED', tests, 'demo rc unchanged/changed =', a.returncode, b.returncode)
    if a.returncode != 0:
        print((a.stdout + a.stderr)[-600:])
    return ok


def cmd_check(sid, props, scale, tier):
    d = os.path.join(SEEDED, sid)
    m = meta_of(sid)
    props = props or [m.get('property')]
    tmp, r = scratch(os.path.join(d, 'patch.diff'))
    results = m.setdefault('checks', {})
    try:
        for p in props:
            res = subprocess.run([PY, os.path.join(HERE, 'run.py'), p, '--tier', tier, '--scale', str(scale)],
                                 env=dict(os.environ, VERIF_REPO=r, VERIF_EVIDENCE_DIR=os.path.join(tmp, 'evidence')), capture_output=True, text=True)
            verdict = {0: 'missed', 1: 'caught', 2: 'harness-error'}.get(res.returncode, 'rc=%d' % res.returncode)
            first = next((l.strip() for l in res.stderr.splitlines() if l.startswith('  replays/')), '')[:300]
            results[p] = {'verdict': verdict, 'tier': tier, 'scale': scale, 'first_failure': first}
            print('%-22s %-4s %-8s %s' % (sid, p, verdict, first[:200]), flush=True)
    finally:
        drop(tmp)
        shutil.rmtree(os.path.join(HERE, 'replays', 'out'), ignore_errors=True)
    save_meta(sid, m)


def cmd_demos():
    """every demo must exit 0 on the current /repo tree (regression net for the repository's own fix: commits)"""
    bad = 0
    for sid in sorted(os.listdir(SEEDED)):
        demo = os.path.join(SEEDED, sid, 'demo.py')
        if not os.path.exists(demo):
            continue
        r = subprocess.run([PY, demo], env=dict(os.environ, PYTHONPATH='/repo', PYTHONDONTWRITEBYTECODE='1'), capture_output=True, text=True, cwd=tempfile.gettempdir())
        if r.returncode != 0:
            bad += 1
            print('demo fails on the current tree:', sid, (r.stdout + r.stderr)[-300:])
    print('%d demos failing' % bad)
    return bad == 0


if __name__ == '__main__':
    a = sys.argv[1:]
    if a[0] == 'demos':
        sys.exit(0 if cmd_demos() else 1)
    if a[0] == 'import':
        cmd_import(a[1], a[2])
    elif a[0] == 'verify':
        sys.exit(0 if cmd_verify(a[1]) else 1)
    elif a[0] == 'check':
        scale, tier = 0.5, 'quick'
        rest = []
        i = 2
        while i < len(a):
            if a[i] == '--scale':
                scale = float(a[i + 1]); i += 2
            elif a[i] == '--tier':
                tier = a[i + 1]; i += 2
            else:
                rest.append(a[i]); i += 1
        cmd_check(a[1], rest, scale, tier)
