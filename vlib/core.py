"""Runner core: legs, sharded workers, failure buckets, attribution to known findings,
bounded shrinking, replay files, evidence.  See DESIGN.md section 2."""
import collections
import hashlib
import json
import multiprocessing as mp
import os
import signal
import sys
import time
import traceback

VERIF = os.path.dirname(os.path.dirname(os.path.abspath(__file__)))
REPO = os.path.realpath(os.environ.get('VERIF_REPO', '/repo'))

EXIT_OK, EXIT_VIOLATION, EXIT_HARNESS = 0, 1, 2

CASE_CPU_LIMIT = 60        # CPU seconds for one case before it is recorded as clause 'hang'


class HarnessError(Exception):
    pass


class StopShard(BaseException):
    """raised after repeated hangs: the shard stops searching and reports what it has"""


class HangError(BaseException):
    """raised by the SIGVTALRM handler inside a case that burns CPU_LIMIT seconds of CPU"""


class Failure:
    __slots__ = ('clause', 'sig', 'detail')

    def __init__(self, clause, sig='', detail=''):
        self.clause = str(clause)
        self.sig = str(sig)
        self.detail = str(detail)[:600]

    def key(self):
        return (self.clause, self.sig)

    def to_json(self):
        return {'clause': self.clause, 'sig': self.sig, 'detail': self.detail}


class Result:
    """What one check of one case reports."""
    __slots__ = ('failures', 'nontrivial', 'key', 'labels', 'sample')

    def __init__(self, key=None, nontrivial=False, labels=(), failures=None, sample=None):
        self.failures = failures if failures is not None else []
        self.nontrivial = nontrivial
        self.key = key
        self.labels = list(labels)
        self.sample = sample

    def fail(self, clause, sig='', detail=''):
        self.failures.append(Failure(clause, sig, detail))


class Leg:
    """One search leg of a property.

    kind 'hyp'    : strategy(tier) -> hypothesis strategy of JSON-able cases; check(case) -> Result
    kind 'enum'   : enumerate(tier) -> iterator of JSON-able cases (sharded by index); check(case) -> Result
    kind 'custom' : run(tier, seed, shard, nshards, budget) -> ShardOut (the leg does its own search)
    """

    def __init__(self, name, check=None, strategy=None, enumerate=None, run=None,
                 examples=None, kind=None, hazard_leg=False, shards=None, exhaustive=False,
                 max_shards=None, cpu_limit=None):
        self.name = name
        self.check = check
        self.strategy = strategy
        self.enumerate = enumerate
        self.run = run
        self.examples = examples or {'quick': 1000, 'thorough': 10000}
        self.kind = kind or ('hyp' if strategy else 'enum' if enumerate else 'custom')
        self.hazard_leg = hazard_leg
        self.exhaustive = exhaustive
        self.max_shards = max_shards
        self.cpu_limit = cpu_limit


def h64(obj):
    if not isinstance(obj, (str, bytes)):
        obj = json.dumps(obj, sort_keys=True, ensure_ascii=True, default=str)
    if isinstance(obj, str):
        obj = obj.encode('utf-8', 'surrogatepass')
    return int.from_bytes(hashlib.blake2b(obj, digest_size=8).digest(), 'big')


def mix_seed(*parts):
    return h64(json.dumps([str(p) for p in parts])) & 0x7FFFFFFF


def case_size(case):
    try:
        return len(json.dumps(case, ensure_ascii=True, default=str))
    except Exception:
        return 10 ** 9


def sqlparse_frame(tb):
    """innermost frame of the traceback that lies in the tree under test -> 'file:func'"""
    best = None
    for fs in traceback.extract_tb(tb):
        fn = os.path.realpath(fs.filename)
        if fn.startswith(REPO + os.sep):
            best = '%s:%s' % (os.path.relpath(fn, REPO), fs.name)
    return best


def exc_failure(clause, exc):
    """Failure for an exception that escaped from the code under test, bucketed by type + innermost frame.
    An exception whose traceback never enters the tree under test is a harness bug and is re-raised."""
    where = sqlparse_frame(exc.__traceback__)
    if where is None:
        raise exc
    return Failure(clause, '%s@%s' % (type(exc).__name__, where), '%s: %s' % (type(exc).__name__, exc))


# ------------------------------------------------------------------------------------------------------------
# known findings

def load_findings(prop_id):
    path = os.path.join(VERIF, 'known_findings.json')
    if not os.path.exists(path):
        return []
    with open(path) as f:
        data = json.load(f)
    return [e for e in data.get('findings', []) if prop_id in e.get('properties', [e.get('property')])]


def excluded_hazards(prop_id):
    """hazard flags the main search must not generate: those of findings still listed as known"""
    out = set()
    for e in load_findings(prop_id):
        if e.get('status') == 'known':
            out.update(e.get('hazards', []))
    return out


# ------------------------------------------------------------------------------------------------------------
# shard worker

class ShardOut:
    def __init__(self):
        self.evaluations = 0
        self.nontrivial = set()
        self.distinct = set()
        self.labels = collections.Counter()
        self.samples = []
        self.buckets = {}        # (leg, clause, sig) -> dict(case, detail, count, finding)
        self.known_seen = collections.Counter()
        self.extra = {}
        self.error = None

    def add_failure(self, legname, case, failure, finding):
        k = (legname, failure.clause, failure.sig)
        b = self.buckets.get(k)
        sz = case_size(case)
        if b is None:
            self.buckets[k] = {'case': case, 'detail': failure.detail, 'count': 1, 'finding': finding, 'size': sz,
                               'unattributed': 0 if finding else 1}
        else:
            b['count'] += 1
            if not finding:
                b['unattributed'] += 1
            # an unattributed case always wins over an attributed one; then the smaller one
            better = (finding is None and b['finding'] is not None) or \
                     ((finding is None) == (b['finding'] is None) and sz < b['size'])
            if better:
                b.update(case=case, detail=failure.detail, finding=finding, size=sz)


def _alarm_handler(signum, frame):
    raise HangError()


class Collector:
    def __init__(self, prop, out, classifiers, max_samples=6):
        self.prop = prop
        self.out = out
        self.classifiers = classifiers      # list of (finding_id, fn)
        self.max_samples = max_samples

    def attribute(self, case, failure):
        for fid, fn in self.classifiers:
            try:
                if fn(case, failure):
                    return fid
            except Exception:
                continue
        return None

    def run_case(self, leg, case):
        out = self.out
        limit = getattr(leg, 'cpu_limit', None) or CASE_CPU_LIMIT
        signal.setitimer(signal.ITIMER_VIRTUAL, limit)
        try:
            res = leg.check(case)
        except HangError:
            res = Result(key=case, nontrivial=False)
            res.fail('hang', 'cpu>%ds' % limit, 'case did not finish within the CPU limit of %d s: %r' % (limit, case if len(repr(case)) < 300 else repr(case)[:300]))
            self.hangs = getattr(self, 'hangs', 0) + 1
        finally:
            signal.setitimer(signal.ITIMER_VIRTUAL, 0)
        out.evaluations += 1
        hk = h64(res.key if res.key is not None else case)
        out.distinct.add(hk)
        if res.nontrivial:
            out.nontrivial.add(hk)
        for lab in res.labels:
            out.labels[lab] += 1
        if res.nontrivial and len(out.samples) < self.max_samples and (out.evaluations % 7 == 1 or len(out.samples) < 2):
            out.samples.append(res.sample if res.sample is not None else case)
        for f in res.failures:
            fid = self.attribute(case, f)
            if fid:
                out.known_seen[fid] += 1
            out.add_failure(leg.name, case, f, fid)
        if getattr(self, 'hangs', 0) >= 2:
            raise StopShard()
        return res


def _hyp_settings(n, shrink=False):
    from hypothesis import settings, HealthCheck, Phase
    phases = [Phase.generate, Phase.shrink] if shrink else [Phase.generate]
    return settings(max_examples=max(1, n), database=None, deadline=None, derandomize=False,
                    report_multiple_bugs=False, phases=phases,
                    suppress_health_check=[HealthCheck.too_slow, HealthCheck.data_too_large,
                                           HealthCheck.large_base_example])


def run_hyp_leg(prop, leg, tier, seed, shard, n, collector):
    from hypothesis import given, seed as hseed
    strat = leg.strategy(tier)

    @hseed(mix_seed(seed, prop.ID, leg.name, shard))
    @_hyp_settings(n)
    @given(strat)
    def t(case):
        collector.run_case(leg, case)
    t()


def run_enum_leg(prop, leg, tier, seed, shard, nshards, collector):
    for i, case in enumerate(leg.enumerate(tier)):
        if i % nshards == shard:
            collector.run_case(leg, case)


def _classifiers_for(prop):
    from vlib import findings as F
    out = []
    for e in load_findings(prop.ID):
        if e.get('status') != 'known':
            continue
        fn = F.CLASSIFIERS.get(e.get('classifier'))
        if fn is None:
            raise HarnessError('known finding %s names unknown classifier %r' % (e['id'], e.get('classifier')))
        out.append((e['id'], fn))
    return out


def shard_main(prop_name, legname, tier, seed, shard, nshards, n, conn):
    out = ShardOut()
    try:
        signal.signal(signal.SIGVTALRM, _alarm_handler)
        prop = load_prop(prop_name)
        leg = [l for l in prop.LEGS if l.name == legname][0]
        collector = Collector(prop, out, _classifiers_for(prop))
        if leg.kind == 'hyp':
            run_hyp_leg(prop, leg, tier, seed, shard, n, collector)
        elif leg.kind == 'enum':
            run_enum_leg(prop, leg, tier, seed, shard, nshards, collector)
        else:
            leg.run(tier=tier, seed=seed, shard=shard, nshards=nshards, n=n, collector=collector, leg=leg)
    except StopShard:
        pass
    except BaseException as e:      # harness error (includes hypothesis health checks)
        out.error = ''.join(traceback.format_exception(type(e), e, e.__traceback__))[-4000:]
    payload = {
        'evaluations': out.evaluations, 'nontrivial': out.nontrivial, 'distinct': out.distinct,
        'labels': out.labels, 'samples': out.samples, 'buckets': out.buckets, 'known_seen': out.known_seen,
        'extra': out.extra, 'error': out.error,
    }
    conn.send(payload)
    conn.close()


def load_prop(name):
    import importlib
    return importlib.import_module('props.' + name.lower())


# ------------------------------------------------------------------------------------------------------------
# shrinking (bounded, in a killable subprocess)

def _shrink_main(prop_name, legname, tier, seed, shard, n, bucket, best_path):
    from hypothesis import given, seed as hseed
    signal.signal(signal.SIGVTALRM, _alarm_handler)
    prop = load_prop(prop_name)
    leg = [l for l in prop.LEGS if l.name == legname][0]
    classifiers = _classifiers_for(prop)
    best = [None]

    def failing(case):
        signal.setitimer(signal.ITIMER_VIRTUAL, CASE_CPU_LIMIT)
        try:
            res = leg.check(case)
        except HangError:
            return bucket[0] == 'hang'
        finally:
            signal.setitimer(signal.ITIMER_VIRTUAL, 0)
        for f in res.failures:
            if (f.clause, f.sig) == tuple(bucket):
                if any(fn(case, f) for _, fn in classifiers):
                    continue
                return f
        return None

    strat = leg.strategy(tier)

    @hseed(mix_seed(seed, prop.ID, leg.name, shard))
    @_hyp_settings(n, shrink=True)
    @given(strat)
    def t(case):
        f = failing(case)
        if f:
            sz = case_size(case)
            if best[0] is None or sz < best[0]:
                best[0] = sz
                tmp = best_path + '.tmp'
                with open(tmp, 'w') as fh:
                    json.dump({'case': case, 'detail': f.detail if f is not True else 'hang'}, fh)
                os.replace(tmp, best_path)
            raise AssertionError('bucket reproduced')
    try:
        t()
    except BaseException:
        pass


def shrink_bucket(prop, legname, tier, seed, shard, n, bucket, budget_s, workdir):
    best_path = os.path.join(workdir, 'shrink-%s-%d.json' % (legname, h64(list(bucket)) % 10 ** 8))
    ctx = mp.get_context('fork')
    p = ctx.Process(target=_shrink_main, args=(prop.ID, legname, tier, seed, shard, n, list(bucket), best_path))
    p.start()
    p.join(budget_s)
    if p.is_alive():
        p.kill()
        p.join()
    if os.path.exists(best_path):
        with open(best_path) as f:
            d = json.load(f)
        os.unlink(best_path)
        return d
    return None


def ddmin_text(text, still_fails, max_steps=400):
    """character-level delta debugging; `still_fails(text) -> bool`"""
    steps = 0
    n = 2
    while len(text) >= 2 and steps < max_steps:
        chunk = max(1, len(text) // n)
        reduced = False
        i = 0
        while i < len(text) and steps < max_steps:
            cand = text[:i] + text[i + chunk:]
            steps += 1
            if cand != text and still_fails(cand):
                text = cand
                n = max(n - 1, 2)
                reduced = True
            else:
                i += chunk
        if not reduced:
            if chunk == 1:
                break
            n = min(len(text), n * 2)
    return text


# ------------------------------------------------------------------------------------------------------------
# replay files

def write_replay(prop_id, legname, clause, sig, detail, case, seed, tag='out'):
    d = os.path.join(VERIF, 'replays', tag)
    os.makedirs(d, exist_ok=True)
    name = '%s-%s-%08x.json' % (prop_id, legname, h64([clause, sig, case]) & 0xFFFFFFFF)
    path = os.path.join(d, name)
    with open(path, 'w') as f:
        json.dump({'property': prop_id, 'leg': legname, 'clause': clause, 'sig': sig, 'detail': detail,
                   'case': case, 'seed': seed}, f, indent=1, ensure_ascii=True)
    return os.path.relpath(path, VERIF)


def replay_file(prop, path):
    """run the oracle of the recorded leg on the recorded case, without hypothesis -> list of Failure"""
    with open(path) as f:
        d = json.load(f)
    leg = [l for l in prop.LEGS if l.name == d['leg']]
    if not leg:
        raise HarnessError('replay %s names unknown leg %r' % (path, d['leg']))
    signal.signal(signal.SIGVTALRM, _alarm_handler)
    signal.setitimer(signal.ITIMER_VIRTUAL, CASE_CPU_LIMIT)
    try:
        res = leg[0].check(d['case'])
    except HangError:
        res = Result()
        res.fail('hang', 'cpu>%ds' % CASE_CPU_LIMIT)
    finally:
        signal.setitimer(signal.ITIMER_VIRTUAL, 0)
    return d, res


# ------------------------------------------------------------------------------------------------------------
# the driver

TIER_BUDGET = {'quick': 1.0, 'thorough': 1.0}
PER_RUN_CAP = 1500


def nshards_for(leg, shards):
    n = shards
    if leg.max_shards:
        n = min(n, leg.max_shards)
    return max(1, n)


def run_property(prop_name, tier='quick', seed=1, shards=None, only_leg=None, scale=1.0):
    t0 = time.time()
    prop = load_prop(prop_name)
    shards = shards or min(16, os.cpu_count() or 1)
    workdir = os.path.join(VERIF, 'replays', 'out')
    os.makedirs(workdir, exist_ok=True)
    findings = load_findings(prop.ID)
    known = [e for e in findings if e.get('status') == 'known']
    violations = []       # (replay path, description)
    known_lines = {}
    stale = []
    total = ShardOut()
    leg_stats = {}
    replayed = 0

    # ---- replay tier: committed seeds must pass, committed witnesses of known findings must fail as listed
    from vlib import findings as F
    for tag in ('seeds', 'known'):
        d = os.path.join(VERIF, 'replays', tag)
        if not os.path.isdir(d):
            continue
        for fn in sorted(os.listdir(d)):
            if not fn.startswith(prop.ID + '-') or not fn.endswith('.json'):
                continue
            path = os.path.join(d, fn)
            rec, res = replay_file(prop, path)
            replayed += 1
            if tag == 'seeds':
                for f in res.failures:
                    fid = None
                    for e in known:
                        fnc = F.CLASSIFIERS[e['classifier']]
                        if fnc(rec['case'], f):
                            fid = e['id']
                    if fid:
                        known_lines[fid] = True
                    else:
                        violations.append((os.path.relpath(path, VERIF), '%s/%s %s' % (f.clause, f.sig, f.detail)))
            else:
                fid = rec.get('finding')
                e = [x for x in known if x['id'] == fid]
                if not e:
                    # witness of a finding that is now fixed (or not listed): it must pass
                    for f in res.failures:
                        violations.append((os.path.relpath(path, VERIF), '%s/%s %s' % (f.clause, f.sig, f.detail)))
                    continue
                fnc = F.CLASSIFIERS[e[0]['classifier']]
                hit = [f for f in res.failures if fnc(rec['case'], f)]
                other = [f for f in res.failures if not any(
                    F.CLASSIFIERS[x['classifier']](rec['case'], f) for x in known)]
                if hit:
                    known_lines[fid] = True
                else:
                    stale.append(fid)
                for f in other:
                    violations.append((os.path.relpath(path, VERIF), '%s/%s %s' % (f.clause, f.sig, f.detail)))

    # ---- search legs
    ctx = mp.get_context('fork')
    harness_errors = []
    legs = [l for l in prop.LEGS if (only_leg is None or l.name == only_leg)]
    jobs = []
    for leg in legs:
        n_total = int(leg.examples.get(tier, leg.examples.get('quick', 1000)) * scale)
        ns = nshards_for(leg, shards)
        if leg.kind == 'hyp' and not leg.max_shards:
            # Hypothesis keeps the tree of every example it has generated: the memory of one run grows with its example
            # count (gigabytes for 10^4 large scripts).  A leg is therefore cut into runs of at most PER_RUN_CAP examples,
            # each in a process of its own with its own seed, at most `shards` of them alive at a time.
            ns = max(ns, (n_total + PER_RUN_CAP - 1) // PER_RUN_CAP)
        per = max(1, (n_total + ns - 1) // ns)
        for s in range(ns):
            jobs.append((leg, s, ns, per))
    # run at most `shards` processes at a time
    running = []
    results = []
    pending = list(jobs)
    while pending or running:
        while pending and len(running) < shards:
            leg, s, ns, per = pending.pop(0)
            parent, child = ctx.Pipe(duplex=False)
            p = ctx.Process(target=shard_main, args=(prop.ID, leg.name, tier, seed, s, ns, per, child))
            p.start()
            child.close()
            running.append((p, parent, leg, s, per))
        still = []
        for p, parent, leg, s, per in running:
            if parent.poll(0.05):
                try:
                    payload = parent.recv()
                except EOFError:
                    payload = {'error': 'shard %s/%d died without result (exit %s)' % (leg.name, s, p.exitcode)}
                p.join()
                results.append((leg, s, per, payload))
            elif not p.is_alive():
                p.join()
                if parent.poll(0.2):
                    results.append((leg, s, per, parent.recv()))
                else:
                    results.append((leg, s, per, {'error': 'shard %s/%d died without result (exit %s)' % (leg.name, s, p.exitcode)}))
            else:
                still.append((p, parent, leg, s, per))
        running = still

    bucket_origin = {}
    for leg, s, per, payload in results:
        if payload.get('error'):
            harness_errors.append('[%s shard %d] %s' % (leg.name, s, payload['error']))
            continue
        st = leg_stats.setdefault(leg.name, {'evaluations': 0, 'nontrivial': set(), 'distinct': set()})
        st['evaluations'] += payload['evaluations']
        st['nontrivial'] |= payload['nontrivial']
        st['distinct'] |= payload['distinct']
        total.evaluations += payload['evaluations']
        total.nontrivial |= payload['nontrivial']
        total.distinct |= payload['distinct']
        total.labels.update(payload['labels'])
        total.known_seen.update(payload['known_seen'])
        for k, v in payload['extra'].items():
            if isinstance(v, (int, float)) and isinstance(total.extra.get(k, 0), (int, float)):
                total.extra[k] = total.extra.get(k, 0) + v
            elif isinstance(v, list):
                total.extra.setdefault(k, [])
                total.extra[k] = (total.extra[k] + v)[:12]
            else:
                total.extra[k] = v
        if len(total.samples) < 10:
            total.samples.extend(payload['samples'][:2])
        for k, b in payload['buckets'].items():
            cur = total.buckets.get(k)
            if cur is None:
                total.buckets[k] = dict(b)
                bucket_origin[k] = (s, per)
            else:
                cur['count'] += b['count']
                cur['unattributed'] += b['unattributed']
                better = (b['finding'] is None and cur['finding'] is not None) or \
                         ((b['finding'] is None) == (cur['finding'] is None) and b['size'] < cur['size'])
                if better:
                    cur.update(case=b['case'], detail=b['detail'], finding=b['finding'], size=b['size'])
                    bucket_origin[k] = (s, per)

    if harness_errors:
        for e in harness_errors[:3]:
            sys.stderr.write('HARNESS ERROR %s\n' % e)
        return EXIT_HARNESS

    # ---- attribute / shrink / report
    shrink_budget = 20 if tier == 'quick' else 120
    unattributed = [(k, b) for k, b in total.buckets.items() if b['unattributed'] > 0]
    unattributed.sort(key=lambda kb: kb[1]['size'])
    for i, (k, b) in enumerate(unattributed):
        legname, clause, sig = k
        leg = [l for l in prop.LEGS if l.name == legname][0]
        case, detail = b['case'], b['detail']
        if leg.kind == 'hyp' and i < 4:
            s, per = bucket_origin[k]
            d = shrink_bucket(prop, legname, tier, seed, s, per, (clause, sig), shrink_budget, workdir)
            if d and case_size(d['case']) <= b['size']:
                case, detail = d['case'], d['detail']
        path = write_replay(prop.ID, legname, clause, sig, detail, case, seed)
        violations.append((path, '%s/%s (%d cases) %s' % (clause, sig, b['unattributed'], detail)))

    for fid in total.known_seen:
        known_lines[fid] = True
    for e in known:
        if e['id'] in known_lines:
            print('KNOWN-FINDING: property=%s %s: %s' % (prop.ID, e['id'], e['what']))
    for fid in stale:
        if fid not in known_lines:
            sys.stderr.write('note: witness of known finding %s no longer fails (entry stale?)\n' % fid)

    write_evidence(prop, tier, seed, total, leg_stats, violations, known, known_lines, replayed, time.time() - t0, legs)

    if violations:
        for path, desc in violations:
            print('VIOLATION property=%s replay=%s' % (prop.ID, path))
            sys.stderr.write('  %s: %s\n' % (path, desc[:500]))
        return EXIT_VIOLATION
    return EXIT_OK


def jsonable(x, depth=0):
    if depth > 6:
        return str(x)[:200]
    if isinstance(x, dict):
        return {str(k): jsonable(v, depth + 1) for k, v in list(x.items())[:40]}
    if isinstance(x, (list, tuple)):
        return [jsonable(v, depth + 1) for v in list(x)[:60]]
    if isinstance(x, str):
        return x if len(x) <= 700 else x[:700] + '...'
    if isinstance(x, (int, float, bool)) or x is None:
        return x
    return str(x)[:200]


def write_evidence(prop, tier, seed, total, leg_stats, violations, known, known_lines, replayed, wall, legs):
    cov = {
        'evaluations': total.evaluations,
        'distinct_nontrivial': len(total.nontrivial),
        'distinct_cases': len(total.distinct),
        'rule': prop.RULE,
        'samples': [jsonable(s) for s in total.samples[:8]],
        'labels': dict(sorted(total.labels.items())),
        'legs': {name: {'evaluations': st['evaluations'], 'distinct_nontrivial': len(st['nontrivial']),
                        'distinct_cases': len(st['distinct'])} for name, st in leg_stats.items()},
        'replayed_files': replayed,
        'known_findings_seen': {fid: int(n) for fid, n in total.known_seen.items()},
        'known_findings_reported': sorted(known_lines),
        'failure_buckets': [{'leg': k[0], 'clause': k[1], 'sig': k[2], 'cases': b['count'],
                             'unattributed': b['unattributed'], 'finding': b['finding']}
                            for k, b in sorted(total.buckets.items())][:40],
        'excluded_hazards': sorted(excluded_hazards(prop.ID)),
    }
    exh = [l.name for l in legs if l.exhaustive]
    if exh:
        cov['exhaustive_legs'] = exh
        cov['exhaustive'] = len(exh) == len(legs)
    for k, v in total.extra.items():
        cov.setdefault(k, jsonable(v))
    ev = {
        'property_id': prop.ID, 'tier': tier, 'seed': int(seed), 'level': 'exploration',
        'coverage': cov, 'assumptions': list(getattr(prop, 'ASSUMPTIONS', [])),
        'wall_s': round(wall, 2), 'violations': len(violations),
    }
    d = os.environ.get('VERIF_EVIDENCE_DIR') or os.path.join(VERIF, 'evidence')     # the mutant self-test redirects its evidence
    os.makedirs(d, exist_ok=True)
    tmp = os.path.join(d, prop.ID + '.json.tmp')
    with open(tmp, 'w') as f:
        json.dump(ev, f, indent=1, ensure_ascii=True, sort_keys=False)
    os.replace(tmp, os.path.join(d, prop.ID + '.json'))
