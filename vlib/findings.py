"""Classifiers of known findings: narrow predicates over (case, failure).  A failure that no classifier of a
listed known finding accepts is a violation.  Entries of known_findings.json name these by key."""

CLASSIFIERS = {}


def classifier(name):
    def deco(fn):
        CLASSIFIERS[name] = fn
        return fn
    return deco
