"""Classifiers of known findings: narrow predicates over (case, failure).  A failure that no classifier of a
listed known finding accepts is a violation.  Entries of known_findings.json name these by key."""

CLASSIFIERS = {}


def classifier(name):
    def deco(fn):
        CLASSIFIERS[name] = fn
        return fn
    return deco


def _lex(case):
    return case.get('lex') or []


@classifier('f6_serializer_quote_parity')
def _f6(case, failure):
    """F6: a quote character inside a comment or backtick name shifts the serializer's raw-text quote pairing, so a
    later multi-line literal is line-normalised (C06/C08) or a line keeps its trailing blank (C10).  Only failures of
    exactly that shape, in a case that contains such a lexeme, are attributed."""
    from props import _fmt
    if not _fmt.quote_hazard(_lex(case)):
        return False
    return (failure.clause, failure.sig) in {
        ('significant-tokens', 'str-eol-normalised'), ('significant-tokens', 'qname-eol-normalised'),
        ('relex', 'quoted-eol-normalised'), ('nf3-trailing-blank', 'line'), ('idempotent', 'eol-normalised')}


@classifier('f5_bare_end_lowers_level')
def _f5(case, failure):
    """F5: outside CREATE a bare END (of a CASE expression, or the word END) lowers the split level although nothing
    raised it, so a ';' inside a later parenthesis ends the statement.  The check tags such failures ':hazard' only when
    the statement has an END before / inside a parenthesis body that contains ';'."""
    return failure.clause in ('count', 'extent', 'cut-inside-lexeme') and failure.sig.endswith(':hazard')


@classifier('f7_truncate_quote_pair')
def _f7(case, failure):
    """F7: truncate_strings cuts through a '' pair, or takes the value[:2]=="''" branch for a literal that starts with
    an escaped quote: the result is not one well-formed literal.  The check tags a failure ':trunc-hazard' only when
    the diverging token is such a literal (relex) or the script contains one (second application)."""
    return (failure.clause, failure.sig) in {('relex', 'literal:trunc-hazard'), ('idempotent', 'trunc-hazard')}


@classifier('f19_strip_comments_leading_blanks')
def _f19(case, failure):
    """F19: strip_comments removes a comment that starts a statement but leaves the blanks that followed it, so the
    output has blanks after the previous statement's ';' which a second application (where they belong to the
    previous statement) strips: not a fixed point, whitespace only."""
    return (failure.clause, failure.sig) == ('idempotent', 'blanks-after-semicolon') and bool((case.get('opts') or {}).get('strip_comments'))


@classifier('f8b_comment_newline_blank')
def _f8b(case, failure):
    """F8b: strip_whitespace turns the line break that follows (or separates) comments inside a Comment group into a
    blank and keeps the blank outside the group too: two blanks next to a comment, and a second application differs.
    Attributed only when the script has a line break next to a comment and the failure is a whitespace run next to a
    comment or the fixed-point clause."""
    return (failure.clause, failure.sig) in {('nf1-run', 'comment:newline_after_comment_in_gap'),
                                             ('nf1-fixed-point', 'changed:newline_after_comment_in_gap'),
                                             ('nf1-edges', 'trail:newline_after_comment_in_gap')}


@classifier('f9b_operator_after_comment_line')
def _f9b(case, failure):
    """F9b: use_space_around_operators is not a fixed point when an operator starts the line after a comment: the first
    pass sees 'comment, blank, newline, operator' (newline = whitespace, nothing inserted) and the serializer strips the
    blank; on the second pass the newline belongs to the Comment group, so a blank is inserted before the operator."""
    return (failure.clause, failure.sig) == ('nf2-fixed-point', 'changed:comment_line_end_before_operator')


@classifier('f12a_keyword_tight_paren')
def _f12a(case, failure):
    """F12a: a leading DML keyword written directly before '(' is lexed as a Name (rule "word followed by ( is a
    function name"), so get_type() is UNKNOWN.  Only the dedicated leg that writes exactly that shape tags its failures."""
    return failure.clause == 'type' and failure.sig.endswith(':leading_kw_tight_paren') and bool(case.get('hazard'))


@classifier('f24_paren_item_in_list')
def _f24(case, failure):
    """F24: a comma list in which an item is a bare parenthesised expression (no alias) is not grouped into one
    IdentifierList (Parenthesis is not a list-item class: VALUES tuples rely on that).  The check tags the list failure
    only when the written list has such an item."""
    return failure.clause in ('list', 'function') and failure.sig.endswith(':paren_item_in_list')


@classifier('f29_hash_comment_blank_stripped')
def _f29(case, failure):
    """F29: a '# ' comment with an empty body at the end of a statement: split() strips the piece, the '#' loses the
    blank that made it a comment and re-splitting the piece yields an extra '#' statement."""
    return (failure.clause, failure.sig) == ('resplit', 'hash-comment-lost-its-blank')


@classifier('f30_lookbehind_context_lost')
def _f30(case, failure):
    """F30: a statement that directly follows a GO keyword without whitespace and starts with a token lexed by a
    look-behind rule ([name], $tag$, :p, ?): as a piece of its own the left context is gone and it lexes differently."""
    return (failure.clause, failure.sig) == ('resplit', 'lookbehind-at-piece-start')
