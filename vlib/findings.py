"""Classifiers of known findings: narrow predicates over (case, failure).  A failure that no classifier of a
listed known finding accepts is a violation.  Entries of known_findings.json name these by key."""

CLASSIFIERS = {}


def classifier(name):
    def deco(fn):
        CLASSIFIERS[name] = fn
        return fn
    return deco


def _lex(case):
    return case.get('lex') or []


@classifier('f6_serializer_quote_parity')
def _f6(case, failure):
    """F6: a quote character inside a comment or backtick name shifts the serializer's raw-text quote pairing, so a
    later multi-line literal is line-normalised (C06/C08) or a line keeps its trailing blank (C10).  Only failures of
    exactly that shape, in a case that contains such a lexeme, are attributed."""
    from props import _fmt
    if not _fmt.quote_hazard(_lex(case)):
        return False
    return (failure.clause, failure.sig) in {
        ('significant-tokens', 'str-eol-normalised'), ('significant-tokens', 'qname-eol-normalised'),
        ('relex', 'quoted-eol-normalised'), ('nf3-trailing-blank', 'line'), ('idempotent', 'eol-normalised')}


@classifier('f5_bare_end_lowers_level')
def _f5(case, failure):
    """F5: outside CREATE a bare END (of a CASE expression, or the word END) lowers the split level although nothing
    raised it, so a ';' inside a later parenthesis ends the statement.  The check tags such failures ':hazard' only when
    the statement has an END before / inside a parenthesis body that contains ';'."""
    return failure.clause in ('count', 'extent', 'cut-inside-lexeme') and failure.sig.endswith(':hazard')


@classifier('f7_truncate_quote_pair')
def _f7(case, failure):
    """F7: truncate_strings cuts through a '' pair, or takes the value[:2]=="''" branch for a literal that starts with
    an escaped quote: the result is not one well-formed literal.  The check tags a failure ':trunc-hazard' only when
    the diverging token is such a literal (relex) or the script contains one (second application)."""
    return (failure.clause, failure.sig) in {('relex', 'literal:trunc-hazard'), ('idempotent', 'trunc-hazard')}


@classifier('f19_strip_comments_leading_blanks')
def _f19(case, failure):
    """F19: strip_comments removes a comment that starts a statement but leaves the blanks that followed it, so the
    output has blanks after the previous statement's ';' which a second application (where they belong to the
    previous statement) strips: not a fixed point, whitespace only."""
    return (failure.clause, failure.sig) == ('idempotent', 'blanks-after-semicolon') and bool((case.get('opts') or {}).get('strip_comments'))
